"""Guarded child runner for mlr (DESIGN.md section 1, "Resource guards").

Every child: own session/process group, RLIMIT_FSIZE / RLIMIT_CORE, stdout+stderr to files
in a per-process scratch dir under /dev/shm (so a flood hits RLIMIT_FSIZE instead of our memory), a
wall-clock limit, and a hermetic environment.
"""
import atexit
import os
import resource
import shutil
import signal
import subprocess
import tempfile
import time

_SCRATCH = None
_SCRATCH_PID = None


def scratch():
    """Per-process scratch directory (re-created after fork)."""
    global _SCRATCH, _SCRATCH_PID
    if _SCRATCH is None or _SCRATCH_PID != os.getpid():
        base = "/dev/shm" if os.path.isdir("/dev/shm") and os.access("/dev/shm", os.W_OK) else tempfile.gettempdir()
        _SCRATCH = tempfile.mkdtemp(prefix="verif-%d-" % os.getpid(), dir=base)
        _SCRATCH_PID = os.getpid()
        atexit.register(_cleanup, _SCRATCH, os.getpid())
    return _SCRATCH


def _cleanup(d, pid):
    if os.getpid() == pid:
        shutil.rmtree(d, ignore_errors=True)


def cleanup_now():
    global _SCRATCH
    if _SCRATCH and _SCRATCH_PID == os.getpid():
        shutil.rmtree(_SCRATCH, ignore_errors=True)
        _SCRATCH = None


_counter = [0]


def newdir(prefix="c"):
    _counter[0] += 1
    d = os.path.join(scratch(), "%s%d" % (prefix, _counter[0]))
    os.mkdir(d)
    return d


def base_env(extra=None, tz=None):
    home = os.path.join(scratch(), "home")
    if not os.path.isdir(home):
        os.makedirs(home, exist_ok=True)
    env = {
        "PATH": "/usr/local/bin:/usr/bin:/bin:/root/miniconda/bin",
        "HOME": home,
        "XDG_CONFIG_HOME": os.path.join(home, "xdg"),
        "MLRRC": "__none__",
        "MLR_NO_COLOR": "1",
        "LC_ALL": "C.UTF-8",
        "LANG": "C.UTF-8",
    }
    if tz is not None:
        env["TZ"] = tz
    if extra:
        env.update(extra)
    return env


class Result(object):
    __slots__ = ("rc", "out", "err", "timed_out", "capped", "wall", "argv")

    def __init__(self, rc, out, err, timed_out, capped, wall, argv):
        self.rc, self.out, self.err, self.timed_out, self.capped, self.wall, self.argv = rc, out, err, timed_out, capped, wall, argv

    @property
    def panicked(self):
        e = self.err
        return (b"panic:" in e or b"fatal error:" in e or b"runtime error" in e or b"goroutine " in e
                or b"stack overflow" in e or b"[signal SIG" in e)

    @property
    def ok(self):
        return self.rc == 0 and not self.timed_out and not self.capped

    def brief(self):
        return {"rc": self.rc, "timed_out": self.timed_out, "capped": self.capped,
                "out": self.out[:400].decode("utf-8", "replace"), "err": self.err[:400].decode("utf-8", "replace")}


def _preexec(fsize, asbytes):
    def f():
        os.setsid()
        resource.setrlimit(resource.RLIMIT_CORE, (0, 0))
        if fsize:
            resource.setrlimit(resource.RLIMIT_FSIZE, (fsize, fsize))
        if asbytes:
            resource.setrlimit(resource.RLIMIT_AS, (asbytes, asbytes))
        # SIGXFSZ default action kills the child: that is what we want for a flood.
        signal.signal(signal.SIGPIPE, signal.SIG_DFL)
    return f


def killpg(pid, sig=signal.SIGKILL):
    try:
        os.killpg(pid, sig)
    except (ProcessLookupError, PermissionError):
        pass


def run(argv, stdin=None, env=None, cwd=None, timeout=20.0, cap=32 << 20, stdout_path=None, stdin_path=None,
        quit_dump=False, as_limit=None, linger=0.0):
    """Run argv; stdin is bytes (or None => /dev/null). Returns Result."""
    sc = scratch()
    if env is None:
        env = base_env()
    if cwd is None:
        cwd = sc
    _counter[0] += 1
    tag = "%d" % _counter[0]
    outp = stdout_path or os.path.join(sc, "o" + tag)
    errp = os.path.join(sc, "e" + tag)
    inp = None
    if stdin_path is not None:
        fin = open(stdin_path, "rb")
    elif stdin is None:
        fin = open(os.devnull, "rb")
    else:
        inp = os.path.join(sc, "i" + tag)
        with open(inp, "wb") as f:
            f.write(stdin)
        fin = open(inp, "rb")
    fout = open(outp, "wb")
    ferr = open(errp, "wb")
    t0 = time.time()
    timed_out = False
    try:
        p = subprocess.Popen(argv, stdin=fin, stdout=fout, stderr=ferr, env=env, cwd=cwd,
                             preexec_fn=_preexec(cap, as_limit), close_fds=True)
    except OSError as e:
        fin.close(); fout.close(); ferr.close()
        for x in (inp, errp, None if stdout_path else outp):
            if x and os.path.exists(x):
                os.unlink(x)
        return Result(127, b"", ("exec failed: %s" % e).encode(), False, False, 0.0, argv)
    try:
        rc = p.wait(timeout=timeout)
    except subprocess.TimeoutExpired:
        timed_out = True
        if quit_dump:
            killpg(p.pid, signal.SIGQUIT)
            try:
                p.wait(timeout=2)
            except subprocess.TimeoutExpired:
                pass
        killpg(p.pid)
        rc = p.wait()
    finally:
        if linger and not timed_out:
            # children that mlr does not wait for (the commands behind `tee > | "cmd"` and the tee verb's -p) may still be writing:
            # give the rest of the process group time to finish before the stragglers are killed
            t_end = time.time() + linger
            while time.time() < t_end:
                try:
                    os.killpg(p.pid, 0)
                except (ProcessLookupError, PermissionError):
                    break
                time.sleep(0.01)
        killpg(p.pid)  # stragglers of the group (prepipes, system())
        fin.close(); fout.close(); ferr.close()
    wall = time.time() - t0
    if stdout_path is not None and not os.path.isfile(outp):
        out = b""   # e.g. /dev/full: reading it back would never end
    else:
        with open(outp, "rb") as f:
            out = f.read(cap + 1)
    with open(errp, "rb") as f:
        err = f.read(1 << 20)
    capped = (rc == -signal.SIGXFSZ) or len(out) >= cap
    for x in (inp, errp, None if stdout_path else outp):
        if x:
            try:
                os.unlink(x)
            except OSError:
                pass
    return Result(rc, out, err, timed_out, capped, wall, argv)


class Mlr(object):
    """Convenience wrapper bound to one binary."""

    def __init__(self, path, gogc_off=True):
        self.path = path
        self.gogc_off = gogc_off
        self.invocations = 0

    def __call__(self, args, stdin=None, env_extra=None, tz=None, **kw):
        env = base_env(env_extra, tz=tz)
        if self.gogc_off and "GOGC" not in env:
            env["GOGC"] = "off"
        self.invocations += 1
        return run([self.path] + list(args), stdin=stdin, env=env, **kw)
