"""Core of the harness: contexts, violations, Hypothesis glue, sharded execution, evidence, findings."""
import base64
import collections
import hashlib
import importlib
import json
import multiprocessing
import os
import sys
import time
import traceback

VERIF = os.path.dirname(os.path.dirname(os.path.abspath(__file__)))
DEFAULT_SEED = 20260926


class Violation(Exception):
    def __init__(self, case, message, sub=None):
        Exception.__init__(self, message)
        self.case = case
        self.message = message
        self.sub = sub


class Inconclusive(Exception):
    pass


def b64(b):
    return base64.b64encode(b).decode("ascii")


def unb64(s):
    return base64.b64decode(s)


def jhash(obj):
    s = json.dumps(obj, sort_keys=True, default=repr).encode()
    return int.from_bytes(hashlib.blake2b(s, digest_size=8).digest(), "big")


def derive_seed(master, *parts):
    h = hashlib.sha256(("%d|" % master + "|".join(str(p) for p in parts)).encode()).digest()
    return int.from_bytes(h[:6], "big") + 1


class Sub(object):
    """One sub-check of a property.

    fn(ctx): runs shard ctx.shard of ctx.nshards; calls ctx.case()/ctx.fail()
    replay(ctx, case): re-judge one saved case (raises Violation via ctx.fail)
    """

    def __init__(self, name, fn, replay=None, shards=None, rule="", essential=False, exhaustive=False, cost=1.0):
        self.name = name
        self.fn = fn
        self.replay = replay
        self.shards = shards or {"quick": 1, "thorough": 4}
        self.rule = rule
        self.exhaustive = exhaustive
        self.cost = cost


class Ctx(object):
    def __init__(self, prop, sub, tier, master_seed, shard, nshards, mlr_path, known_active, mlr_verif_path=None):
        from . import run as _run
        self.prop = prop
        self.sub = sub
        self.tier = tier
        self.quick = tier == "quick"
        self.master_seed = master_seed
        self.shard = shard
        self.nshards = nshards
        self.seed = derive_seed(master_seed, prop, sub, shard)
        self.mlr_path = mlr_path
        self.mlr = _run.Mlr(mlr_path)
        self.mlr_verif_path = mlr_verif_path
        self.mlrv = _run.Mlr(mlr_verif_path) if mlr_verif_path else None
        self.known_active = known_active  # dict name -> predicate
        self.evaluations = 0
        self.nontrivial = set()
        self.labels = collections.Counter()
        self.samples = []
        self.known_hits = collections.Counter()
        self.excluded = collections.Counter()
        self.inconclusive = 0
        self.violations = []
        self.notes = []
        self.replaying = False
        self._shrinking = False
        self._in_hyp = False
        self.confirming = False   # True while a shrunk failure is re-run for confirmation

    # ----- bookkeeping
    def n(self, quick, thorough):
        """Per-shard budget: total budget for the tier divided among shards."""
        tot = quick if self.quick else thorough
        return max(1, (tot + self.nshards - 1) // self.nshards)

    def case(self, key, nontrivial, labels=(), sample=None, count=1):
        """Record one evaluated case. key: JSON-able identity of the case (for distinctness)."""
        if self._shrinking:
            return
        self.evaluations += count
        if nontrivial:
            self.nontrivial.add(key if isinstance(key, int) else jhash(key))
        for l in labels:
            self.labels[l] += 1
        if sample is not None and len(self.samples) < 4:
            self.samples.append(sample)

    def label(self, l, k=1):
        if not self._shrinking:
            self.labels[l] += k

    def note(self, s):
        if s not in self.notes and len(self.notes) < 50:
            self.notes.append(s)

    def fail(self, case, message, detail=None):
        """Report a failing case. Known findings (active predicates) are counted, not raised."""
        for name, pred in self.known_active.items():
            try:
                hit = pred(self.sub, case, message, detail)
            except Exception:
                hit = False
            if hit:
                self.known_hits[name] += 1
                return
        raise Violation(case, message, self.sub)

    def check(self, cond, case, message):
        if not cond:
            self.fail(case, message() if callable(message) else message)

    # ----- Hypothesis glue
    def hyp(self, strategy, body, max_examples, shrink_budget=120):
        """Run body(case) over generated cases; on Violation, shrink and record (no raise)."""
        import warnings
        import hypothesis
        from hypothesis import given, settings, seed, HealthCheck, Phase
        warnings.simplefilter("ignore")
        ctx = self
        state = {"failed": False, "shrinks": 0, "best": None}

        class _StopShrink(BaseException):
            pass

        def size(v):
            try:
                return len(json.dumps(v.case, default=repr))
            except Exception:
                return 1 << 30

        @seed(self.seed)
        @settings(max_examples=max_examples, database=None, deadline=None, derandomize=False,
                  suppress_health_check=list(HealthCheck), phases=[Phase.generate, Phase.shrink],
                  report_multiple_bugs=False, print_blob=False, verbosity=hypothesis.Verbosity.quiet)
        @given(strategy)
        def t(case):
            if state["failed"]:
                state["shrinks"] += 1
                if state["shrinks"] > shrink_budget:
                    raise _StopShrink()
            try:
                body(case)
            except Violation as v:
                state["failed"] = True
                ctx._shrinking = True
                if state["best"] is None or size(v) <= size(state["best"]):
                    state["best"] = v
                raise

        self._in_hyp = True
        try:
            t()
        except Violation as v:
            self._shrinking = False
            self._confirm_and_record(v, rerun=body)
        except _StopShrink:
            self._shrinking = False
            self._confirm_and_record(state["best"], rerun=body)
        except hypothesis.errors.Flaky as e:
            self._shrinking = False
            if state["best"] is not None:
                self._confirm_and_record(state["best"], rerun=body)
            else:
                self.inconclusive += 1
                self.note("flaky under hypothesis: %s" % str(e)[:300])
        finally:
            self._shrinking = False
            self._in_hyp = False

    def _confirm_and_record(self, v, body_for_case=None, rerun=None):
        """Flake filter: the shrunk case must fail again twice."""
        again = 0
        fn = rerun
        if fn is not None:
            self._shrinking = True
            self._in_hyp = True
            self.confirming = True
            try:
                for _ in range(2):
                    try:
                        fn(v.case)
                    except Violation:
                        again += 1
            finally:
                self._shrinking = False
                self._in_hyp = False
                self.confirming = False
            if again == 0:
                self.inconclusive += 1
                self.note("unreproduced failure: %s" % v.message[:300])
                return
        self.violations.append({"sub": self.sub, "case": v.case, "message": v.message})

    def guard(self, fn, *a):
        """Run fn(*a) recording a Violation instead of propagating (for enumerations). Inside a
        Hypothesis body or a replay the Violation propagates, so that shrinking/replay see it."""
        if self._in_hyp or self.replaying:
            fn(*a)
            return True
        try:
            fn(*a)
            return True
        except Violation as v:
            if len(self.violations) < 5:
                self.violations.append({"sub": self.sub, "case": v.case, "message": v.message})
            return False

    def result(self):
        return {
            "sub": self.sub, "shard": self.shard, "evaluations": self.evaluations,
            "nontrivial": list(self.nontrivial), "labels": dict(self.labels), "samples": self.samples,
            "known_hits": dict(self.known_hits), "excluded": dict(self.excluded),
            "inconclusive": self.inconclusive, "violations": self.violations, "notes": self.notes,
            "mlr_invocations": self.mlr.invocations + (self.mlrv.invocations if self.mlrv else 0),
        }


# --------------------------------------------------------------------------------------------
# known findings

def load_findings():
    p = os.path.join(VERIF, "known_findings.json")
    if not os.path.exists(p):
        return []
    with open(p) as f:
        return json.load(f).get("findings", [])


# --------------------------------------------------------------------------------------------
# task execution

def _task(args):
    (modname, prop, subname, tier, master_seed, shard, nshards, mlr_path, mlr_verif_path, active_names) = args
    from . import run as _run
    t0 = time.time()
    try:
        mod = importlib.import_module(modname)
        sub = [s for s in mod.SUBCHECKS if s.name == subname][0]
        preds = getattr(mod, "KNOWN", {})
        known_active = {k: preds[k]["match"] for k in active_names if k in preds}
        ctx = Ctx(prop, subname, tier, master_seed, shard, nshards, mlr_path, known_active, mlr_verif_path)
        try:
            sub.fn(ctx)
        except Violation as v:
            ctx.violations.append({"sub": subname, "case": v.case, "message": v.message})
        r = ctx.result()
        r["wall"] = time.time() - t0
        r["error"] = None
        return r
    except BaseException as e:  # harness problem: inconclusive
        return {"sub": subname, "shard": shard, "evaluations": 0, "nontrivial": [], "labels": {}, "samples": [],
                "known_hits": {}, "excluded": {}, "inconclusive": 1, "violations": [], "notes": [],
                "mlr_invocations": 0, "wall": time.time() - t0,
                "error": "%s: %s\n%s" % (type(e).__name__, e, traceback.format_exc()[-3000:])}
    finally:
        _run.cleanup_now()


WORKER_AS_LIMIT = 12 << 30   # a runaway model or generator becomes a MemoryError in its own shard instead of taking the machine down


def _child(conn, args):
    try:
        import resource
        resource.setrlimit(resource.RLIMIT_AS, (WORKER_AS_LIMIT, WORKER_AS_LIMIT))
    except Exception:
        pass
    try:
        conn.send(_task(args))
    finally:
        conn.close()


def _run_tasks(mpctx, arglist, jobs):
    """One process per task (fresh interpreter state, as with maxtasksperchild=1), at most `jobs` at a time. Unlike multiprocessing.Pool,
    a worker that dies without delivering its result (killed by the kernel, segfault) is noticed: its shard becomes a harness error."""
    from multiprocessing.connection import wait
    pending = list(arglist)
    running = {}     # sentinel -> (process, parent_conn, args)
    results = []
    while pending or running:
        while pending and len(running) < jobs:
            a = pending.pop(0)
            pc, cc = mpctx.Pipe(duplex=False)
            pr = mpctx.Process(target=_child, args=(cc, a))
            pr.start()
            cc.close()
            running[pr.sentinel] = (pr, pc, a)
        ready = wait([v[1] for v in running.values()] + list(running.keys()), timeout=5.0)
        for sent, (pr, pc, a) in list(running.items()):
            if pc in ready or sent in ready:
                r = None
                try:
                    if pc.poll(0.5 if sent in ready else 0):
                        r = pc.recv()
                except (EOFError, OSError):
                    r = None
                if r is None and pr.is_alive() and sent not in ready:
                    continue
                pr.join(timeout=30)
                if r is None:
                    r = {"sub": a[2], "shard": a[5], "evaluations": 0, "nontrivial": [], "labels": {}, "samples": [], "known_hits": {}, "excluded": {},
                         "inconclusive": 1, "violations": [], "notes": [], "mlr_invocations": 0, "wall": 0.0,
                         "error": "worker process died without a result (exit code %s; killed by the kernel or crashed)" % pr.exitcode}
                results.append(r)
                try:
                    pc.close()
                except OSError:
                    pass
                del running[sent]
    return results


def run_property(prop, tier, master_seed, only_sub=None, jobs=None, log=None, deadline_s=None):
    """Returns (exit_code, evidence_dict). Prints VIOLATION / KNOWN-FINDING lines."""
    from . import build, run as _run
    log = log or (lambda s: sys.stderr.write("[%s] %s\n" % (prop, s)))
    t0 = time.time()
    modname = "props.%s" % prop.lower()
    mod = importlib.import_module(modname)
    level = getattr(mod, "LEVEL", "exploration")
    try:
        mlr_path = build.ensure(log=log)
        mlr_verif_path = build.ensure(tags="verif", log=log) if getattr(mod, "NEEDS_VERIF_BUILD", False) else None
    except build.BuildFailed as e:
        sys.stdout.write("BUILD-FAILED property=%s\n%s\n" % (prop, str(e)[-3000:]))
        return 2, None
    if hasattr(mod, "prepare"):
        mod.prepare(tier)
    # ---- pinned probes of known findings
    preds = getattr(mod, "KNOWN", {})
    findings = [f for f in load_findings() if f.get("property") == prop]
    active = []
    known_lines = []
    mlr = _run.Mlr(mlr_path)
    for f in findings:
        if f.get("status") != "known":
            continue
        name = f["id"]
        ent = preds.get(name)
        if not ent:
            continue
        try:
            still = bool(ent["probe"](mlr))
        except Exception as e:
            still = False
            log("probe %s raised %r" % (name, e))
        if still:
            active.append(name)
            known_lines.append("KNOWN-FINDING: property=%s %s [%s]" % (prop, f["what"], name))
    for l in known_lines:
        print(l)
    sys.stdout.flush()
    # ---- corpus replay
    violations = []
    replayed = 0
    cdir = os.path.join(VERIF, "corpus", prop)
    if os.path.isdir(cdir):
        for fn in sorted(os.listdir(cdir)):
            if not fn.endswith(".json"):
                continue
            with open(os.path.join(cdir, fn)) as f:
                rep = json.load(f)
            v = replay_case(mod, prop, rep, mlr_path, mlr_verif_path, {k: preds[k]["match"] for k in active}, tier, master_seed)
            replayed += 1
            if v:
                violations.append(v)
    # ---- tasks
    tasks = []
    for s in mod.SUBCHECKS:
        if only_sub and s.name not in only_sub:
            continue
        ns = s.shards.get(tier, 1)
        for sh in range(ns):
            tasks.append((s.cost, (modname, prop, s.name, tier, master_seed, sh, ns, mlr_path, mlr_verif_path, active)))
    tasks.sort(key=lambda t: -t[0])
    jobs = jobs or int(os.environ.get("VERIF_JOBS", "0")) or min(16, os.cpu_count() or 4)
    results = []
    mpctx = multiprocessing.get_context("fork")
    _run.cleanup_now()
    if len(tasks) == 1 or jobs == 1:
        for _, a in tasks:
            results.append(_task(a))
    else:
        results = _run_tasks(mpctx, [a for _, a in tasks], min(jobs, len(tasks)))
    # ---- merge
    per_sub = collections.OrderedDict()
    for s in mod.SUBCHECKS:
        if only_sub and s.name not in only_sub:
            continue
        per_sub[s.name] = {"evaluations": 0, "nontrivial": set(), "labels": collections.Counter(), "samples": [],
                           "known_hits": collections.Counter(), "excluded": collections.Counter(), "inconclusive": 0,
                           "notes": [], "mlr_invocations": 0, "rule": s.rule, "exhaustive": s.exhaustive, "wall": 0.0}
    errors = []
    for r in results:
        ps = per_sub[r["sub"]]
        ps["evaluations"] += r["evaluations"]
        ps["nontrivial"].update(r["nontrivial"])
        ps["labels"].update(r["labels"])
        ps["samples"] = (ps["samples"] + r["samples"])[:5]
        ps["known_hits"].update(r["known_hits"])
        ps["excluded"].update(r["excluded"])
        ps["inconclusive"] += r["inconclusive"]
        ps["mlr_invocations"] += r["mlr_invocations"]
        ps["wall"] = max(ps["wall"], r.get("wall", 0.0))
        for nt in r["notes"]:
            if nt not in ps["notes"]:
                ps["notes"].append(nt)
        for v in r["violations"]:
            violations.append(v)
        if r.get("error"):
            errors.append("%s[%d]: %s" % (r["sub"], r["shard"], r["error"]))
    # ---- report
    rdir = os.path.join(VERIF, "replays", prop)
    seen = set()
    nviol = 0
    for v in violations:
        h = "%016x" % jhash([v["sub"], v["case"]])
        if h in seen:
            continue
        seen.add(h)
        nviol += 1
        os.makedirs(rdir, exist_ok=True)
        path = os.path.join(rdir, "%s-%s.json" % (v["sub"], h))
        with open(path, "w") as f:
            json.dump({"property": prop, "sub": v["sub"], "case": v["case"], "message": v["message"],
                       "seed": master_seed, "tier": tier}, f, indent=1, default=repr)
        print("VIOLATION property=%s replay=%s" % (prop, path))
        print("  sub=%s: %s" % (v["sub"], v["message"][:1500].replace("\n", "\n    ")))
    all_nt = set()
    evaluations = 0
    subs_out = {}
    samples = []
    inconclusive = 0
    for name, ps in per_sub.items():
        evaluations += ps["evaluations"]
        all_nt.update((name, x) for x in ps["nontrivial"])
        inconclusive += ps["inconclusive"]
        for smp in ps["samples"][:2]:
            samples.append({"sub": name, "case": smp})
        subs_out[name] = {
            "evaluations": ps["evaluations"], "distinct_nontrivial": len(ps["nontrivial"]), "rule": ps["rule"],
            "exhaustive": ps["exhaustive"], "labels": dict(ps["labels"].most_common(40)),
            "known_finding_hits": dict(ps["known_hits"]), "excluded": dict(ps["excluded"]),
            "inconclusive": ps["inconclusive"], "mlr_invocations": ps["mlr_invocations"],
            "notes": ps["notes"][:20], "wall_s": round(ps["wall"], 2),
        }
    wall = time.time() - t0
    ev = {
        "property_id": prop, "tier": tier, "seed": int(master_seed), "level": level,
        "coverage": {
            "evaluations": evaluations, "distinct_nontrivial": len(all_nt),
            "rule": getattr(mod, "RULE", "see per-sub-check rules"),
            "samples": samples[:30] or [{"note": "no samples recorded"}],
            "sub_checks": subs_out, "corpus_replayed": replayed,
            "known_findings_active": active,
            "exhaustive": bool(subs_out) and all(s["exhaustive"] for s in subs_out.values()),
            "tree_fingerprint": build.tree_fingerprint(),
        },
        "assumptions": getattr(mod, "ASSUMPTIONS", []),
        "wall_s": round(wall, 2), "violations": nviol,
    }
    for e in errors:
        sys.stderr.write("[%s] harness error in %s\n" % (prop, e))
    code = 0
    if nviol:
        code = 1
    elif errors:
        for e in errors:
            sys.stdout.write("INCONCLUSIVE property=%s harness error in %s\n" % (prop, e))
        code = 2
    elif inconclusive and inconclusive > max(3, evaluations // 100):
        sys.stdout.write("INCONCLUSIVE property=%s %d inconclusive cases\n" % (prop, inconclusive))
        code = 2
    return code, ev


def replay_case(mod, prop, rep, mlr_path, mlr_verif_path, known_active, tier="quick", master_seed=DEFAULT_SEED):
    subs = [s for s in mod.SUBCHECKS if s.name == rep["sub"]]
    if not subs or subs[0].replay is None:
        return None
    ctx = Ctx(prop, rep["sub"], tier, master_seed, 0, 1, mlr_path, known_active, mlr_verif_path)
    ctx.replaying = True
    try:
        subs[0].replay(ctx, rep["case"])
    except Violation as v:
        return {"sub": rep["sub"], "case": v.case, "message": v.message}
    return None


def write_evidence(prop, ev):
    d = os.path.join(VERIF, "evidence")
    os.makedirs(d, exist_ok=True)
    p = os.path.join(d, "%s.json" % prop)
    with open(p + ".tmp", "w") as f:
        json.dump(ev, f, indent=1, default=repr)
    os.replace(p + ".tmp", p)
    return p
