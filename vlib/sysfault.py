"""Wrapper around tools/sysfault.c (ptrace supervisor with a global syscall counter)."""
import os
import re
import subprocess

from . import run as vrun

VERIF = os.path.dirname(os.path.dirname(os.path.abspath(__file__)))
CACHE = os.environ.get("VERIF_CACHE", os.path.join(VERIF, ".cache"))
BIN = os.path.join(CACHE, "sysfault")

_available = None


def ensure():
    global _available
    if _available is not None:
        return _available
    src = os.path.join(VERIF, "tools", "sysfault.c")
    try:
        if not os.path.exists(BIN) or os.path.getmtime(BIN) < os.path.getmtime(src):
            os.makedirs(CACHE, exist_ok=True)
            tmp = BIN + ".tmp%d" % os.getpid()
            subprocess.check_call(["gcc", "-O2", "-o", tmp, src], stdout=subprocess.DEVNULL, stderr=subprocess.DEVNULL)
            os.replace(tmp, BIN)
        # does ptrace work here?
        d = vrun.newdir("sf")
        log = os.path.join(d, "log")
        p = subprocess.run([BIN, "list", "0", "0", log, "--", "/bin/true"], stdout=subprocess.PIPE, stderr=subprocess.PIPE, timeout=20)
        _available = p.returncode == 0 and os.path.exists(log) and "TOTAL" in open(log).read()
    except Exception:
        _available = False
    return _available


class Trace(object):
    def __init__(self, rc, calls, total, out, err, timed_out):
        self.rc, self.calls, self.total, self.out, self.err, self.timed_out = rc, calls, total, out, err, timed_out


def run(mode, n, errno_, argv, cwd, env=None, stdin=None, timeout=30, stdout_too=False, stdout_path=None):
    """mode in list|kill|killx|fail. Returns Trace. calls = [(index, tid, name, fd, path, len)]."""
    d = vrun.scratch()
    vrun._counter[0] += 1
    log = os.path.join(d, "sflog%d" % vrun._counter[0])
    e = dict(env or vrun.base_env())
    if stdout_too:
        e["SYSFAULT_STDOUT"] = "1"
    r = vrun.run([BIN, mode, str(n), str(errno_), log, "--"] + list(argv), stdin=stdin, env=e, cwd=cwd, timeout=timeout, stdout_path=stdout_path)
    calls = []
    total = None
    try:
        with open(log) as f:
            for ln in f:
                m = re.match(r"(\d+) (\d+) (\w+) fd=(-?\d+) path=(.*) len=(-?\d+)$", ln.rstrip("\n"))
                if m:
                    calls.append((int(m.group(1)), int(m.group(2)), m.group(3), int(m.group(4)), m.group(5), int(m.group(6))))
                m = re.match(r"TOTAL (\d+) EXIT (-?\d+)", ln)
                if m:
                    total = int(m.group(1))
        os.unlink(log)
    except OSError:
        pass
    return Trace(r.rc, calls, total, r.out, r.err, r.timed_out)
