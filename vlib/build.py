"""Build mlr from the current working tree of the repository (DESIGN.md section 1).

The pinned snapshot has pkg/parsing/parser/parser.go emptied; the parser is regenerated from
pkg/parsing/mlr.bnf with the PGPG generators found in the module cache and injected with
`go build -overlay`.  /repo is never written: go.mod/go.sum are copied next to the cache and used
through -modfile.
"""
import fcntl
import hashlib
import json
import os
import shutil
import subprocess
import sys
import time

VERIF = os.path.dirname(os.path.dirname(os.path.abspath(__file__)))
REPO = os.environ.get("VERIF_REPO", "/repo")
CACHE = os.environ.get("VERIF_CACHE", os.path.join(VERIF, ".cache"))
MODULE = "github.com/johnkerl/miller/v6"

_TOOLCHAINS = [
    "/root/go/pkg/mod/golang.org/toolchain@v0.0.1-go1.25.0.linux-amd64/bin/go",
    "/opt/veriftools/go1.26.8/bin/go",
    "/root/go/pkg/mod/golang.org/toolchain@v0.0.1-go1.26.8.linux-amd64/bin/go",
    "/root/go/pkg/mod/golang.org/toolchain@v0.0.1-go1.26.0.linux-amd64/bin/go",
]


class BuildFailed(Exception):
    pass


def go_bin():
    for p in _TOOLCHAINS:
        if os.path.exists(p):
            return p
    p = shutil.which("go1.26.8") or shutil.which("go")
    if not p:
        raise BuildFailed("no go toolchain found")
    return p


def go_env():
    env = dict(os.environ)
    env.update(
        GOFLAGS="-mod=mod",
        GOPROXY="off",
        GOSUMDB="off",
        GOTOOLCHAIN="local",
        GONOSUMDB="*",
        GONOSUMCHECK="1",
        CGO_ENABLED="0",
    )
    env.pop("GOWORK", None)
    env.setdefault("GOCACHE", os.path.join(CACHE, "gocache"))
    gb = go_bin()
    env["PATH"] = os.path.dirname(gb) + os.pathsep + env.get("PATH", "")
    return env


def _sha_file(h, path):
    try:
        with open(path, "rb") as f:
            h.update(path.encode())
            h.update(b"\0")
            h.update(f.read())
            h.update(b"\0")
    except OSError:
        pass


def tree_fingerprint(repo=None):
    repo = repo or REPO
    h = hashlib.sha256()
    paths = []
    for top in ("cmd/mlr", "pkg"):
        for dp, dn, fn in os.walk(os.path.join(repo, top)):
            dn.sort()
            for f in sorted(fn):
                if (f.endswith(".go") and not f.endswith("_test.go")) or f == "mlr.bnf":
                    paths.append(os.path.join(dp, f))
    for f in ("go.mod", "go.sum"):
        paths.append(os.path.join(repo, f))
    for p in paths:
        rel = os.path.relpath(p, repo)
        try:
            with open(p, "rb") as fh:
                h.update(rel.encode() + b"\0" + fh.read() + b"\0")
        except OSError:
            pass
    return h.hexdigest()[:20]


def _run(cmd, cwd, env, what, timeout=1500):
    p = subprocess.run(cmd, cwd=cwd, env=env, stdout=subprocess.PIPE, stderr=subprocess.STDOUT, timeout=timeout)
    if p.returncode != 0:
        raise BuildFailed("%s failed (%d):\n%s" % (what, p.returncode, p.stdout.decode("utf-8", "replace")[-4000:]))
    return p.stdout


def _modfile_dir(repo):
    """Copy go.mod/go.sum out of the repo so that -mod=mod can never rewrite the repo's files."""
    h = hashlib.sha256()
    for f in ("go.mod", "go.sum"):
        with open(os.path.join(repo, f), "rb") as fh:
            h.update(fh.read())
    d = os.path.join(CACHE, "gomod", h.hexdigest()[:16])
    if not os.path.exists(os.path.join(d, "go.sum")):
        os.makedirs(d, exist_ok=True)
        for f in ("go.mod", "go.sum"):
            shutil.copyfile(os.path.join(repo, f), os.path.join(d, f + ".tmp%d" % os.getpid()))
            os.replace(os.path.join(d, f + ".tmp%d" % os.getpid()), os.path.join(d, f))
    return d


def ensure_parser(repo=None, log=None):
    """Returns the path of an overlay json (or None if the tree's own parser.go is non-empty)."""
    repo = repo or REPO
    pgo = os.path.join(repo, "pkg/parsing/parser/parser.go")
    if os.path.exists(pgo) and os.path.getsize(pgo) > 1000:
        return None
    bnf = os.path.join(repo, "pkg/parsing/mlr.bnf")
    with open(bnf, "rb") as f:
        sha = hashlib.sha256(f.read()).hexdigest()[:20]
    d = os.path.join(CACHE, "parser", sha)
    out_go = os.path.join(d, "parser.go")
    ov = os.path.join(d, "overlay-%s.json" % hashlib.sha256(repo.encode()).hexdigest()[:8])
    if not os.path.exists(out_go):
        os.makedirs(d, exist_ok=True)
        with open(os.path.join(d, ".lock"), "w") as lk:
            fcntl.flock(lk, fcntl.LOCK_EX)
            if not os.path.exists(out_go):
                if log:
                    log("regenerating DSL parser from mlr.bnf (%s) ..." % sha)
                env = go_env()
                md = _modfile_dir(repo)
                mf = "-modfile=" + os.path.join(md, "go.mod")
                tmpj = os.path.join(d, "parser.json.tmp")
                tmpg = os.path.join(d, "parser.go.tmp")
                _run([go_bin(), "run", mf, "github.com/johnkerl/pgpg/go/generators/cmd/parsegen-tables", "-o", tmpj, bnf],
                     repo, env, "parsegen-tables")
                _run([go_bin(), "run", mf, "github.com/johnkerl/pgpg/go/generators/cmd/parsegen-code", "-o", tmpg,
                      "-package", "parser", "-type", "MlrParser", tmpj], repo, env, "parsegen-code")
                _run([os.path.join(os.path.dirname(go_bin()), "gofmt"), "-w", tmpg], repo, env, "gofmt")
                os.replace(tmpj, os.path.join(d, "parser.json"))
                os.replace(tmpg, out_go)
    if not os.path.exists(ov):
        with open(ov + ".tmp%d" % os.getpid(), "w") as f:
            json.dump({"Replace": {pgo: out_go}}, f)
        os.replace(ov + ".tmp%d" % os.getpid(), ov)
    return ov


def ensure(tags=None, repo=None, log=None, race=False):
    """Build (or fetch from cache) mlr for the current tree; returns the binary's path."""
    repo = repo or REPO
    log = log or (lambda s: sys.stderr.write("[build] %s\n" % s))
    fp = tree_fingerprint(repo)
    name = "mlr" + ("-" + tags if tags else "") + ("-race" if race else "")
    d = os.path.join(CACHE, "bin", fp)
    out = os.path.join(d, name)
    if os.path.exists(out):
        try:
            os.utime(d)
        except OSError:
            pass
        return out
    os.makedirs(d, exist_ok=True)
    with open(os.path.join(CACHE, "bin", ".lock-" + name), "w") as lk:
        fcntl.flock(lk, fcntl.LOCK_EX)
        if os.path.exists(out):
            return out
        t0 = time.time()
        ov = ensure_parser(repo, log)
        env = go_env()
        if race:
            env["CGO_ENABLED"] = "1"
        md = _modfile_dir(repo)
        cmd = [go_bin(), "build", "-modfile=" + os.path.join(md, "go.mod")]
        if ov:
            cmd += ["-overlay", ov]
        if tags:
            cmd += ["-tags", tags]
        if race:
            cmd += ["-race"]
        tmp = out + ".tmp%d" % os.getpid()
        cmd += ["-o", tmp, "./cmd/mlr"]
        try:
            _run(cmd, repo, env, "go build " + name)
        except BuildFailed:
            if os.path.exists(tmp):
                os.unlink(tmp)
            raise
        os.replace(tmp, out)
        log("built %s for tree %s in %.1fs" % (name, fp, time.time() - t0))
        _prune(os.path.join(CACHE, "bin"), keep=6)
    return out


def _prune(bindir, keep):
    """Drops old binaries, but never one used within the last 3 hours: a long check started on an earlier tree may still be running it."""
    ds = [os.path.join(bindir, x) for x in os.listdir(bindir) if os.path.isdir(os.path.join(bindir, x))]
    ds.sort(key=lambda p: os.path.getmtime(p), reverse=True)
    now = time.time()
    for p in ds[keep:]:
        if now - os.path.getmtime(p) > 3 * 3600:
            shutil.rmtree(p, ignore_errors=True)


if __name__ == "__main__":
    tags = None
    for a in sys.argv[1:]:
        if a.startswith("--tags="):
            tags = a.split("=", 1)[1]
    try:
        print(ensure(tags=tags))
    except BuildFailed as e:
        sys.stderr.write("BUILD-FAILED: %s\n" % e)
        sys.exit(2)
