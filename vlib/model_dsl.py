"""Reference interpreter for the covered subset of the Miller DSL (C14).

Written from docs/src/reference-dsl-*.md, reference-main-maps.md, reference-main-arrays.md,
reference-main-null-data.md and DESIGN.md Appendix C - not from pkg/dsl/cst.  Anything the
documentation does not determine raises Unmodelled: the generator's job is to stay inside the
modelled language, and a case that strays is discarded (and counted), never judged.

Programs are nested tuples (see props/c14.py for the generator):

  expressions  ("int", n) ("float", x) ("str", s) ("bool", b) ("absent",)
               ("field", name) ("fieldx", e) ("posname", e) ("posval", e) ("srec",)
               ("oos", name) ("oosall",) ("local", name) ("ctx", "NR"|"FNR"|"NF"|"FILENAME"|"FILENUM"|"M_PI")
               ("bin", op, a, b) ("un", op, a) ("tern", c, a, b)
               ("index", base, [i...]) ("slice", base, lo, hi)
               ("maplit", [(k, v)...]) ("arrlit", [e...]) ("call", fname, [args]) ("funclit", [params], block)
  lvalues      ("field", name) ("fieldx", e) ("posname", e) ("posval", e) ("srec",) ("oos", name) ("oosall",)
               ("local", name) ("index", lvalue, [i...])
  statements   ("assign", lv, e) ("opassign", op, lv, e) ("decl", type, name, e) ("unset", lv)
               ("if", [(cond, block)...], else_block|None) ("while", c, block) ("dowhile", block, c)
               ("for3", init_stmts, cond, update_stmts, block) ("fork", k, e, block) ("forkv", k, v, e, block)
               ("formulti", [k...], v, e, block) ("break",) ("continue",)
               ("print", e|None) ("printn", e) ("dump",) ("dumpe", e)
               ("emit1", e) ("emit", emittable, [names]) ("emitp", emittable, [names]) ("emitl", [emittables], [names], prefixed)
               ("emitf", [oosnames]) ("filter", e) ("return", e|None) ("callsub", name, [args]) ("bare", e)
  top level    ("func", name, [(pname, ptype|None)], rettype|None, block) ("subr", name, params, block)
               ("begin", block) ("end", block) ("patact", cond, block) or any statement
"""
import collections
import json
import math

from . import model_num as mn


class Unmodelled(Exception):
    """The program left the modelled language (docs silent or construct not covered)."""


class Fatal(Exception):
    """The documentation says Miller stops with an error here."""


class _Absent(object):
    def __repr__(self):
        return "ABSENT"


class _Error(object):
    def __repr__(self):
        return "ERROR"


ABSENT = _Absent()
ERROR = _Error()


class MMap(collections.OrderedDict):
    pass


class Funct(object):
    def __init__(self, params, block):
        self.params, self.block = params, block


class _Break(Exception):
    pass


class _Continue(Exception):
    pass


class _Return(Exception):
    def __init__(self, value):
        self.value = value


def is_int(v):
    return isinstance(v, int) and not isinstance(v, bool)


def is_num(v):
    return is_int(v) or isinstance(v, float)


def typeof(v):
    if v is ABSENT:
        return "absent"
    if v is ERROR:
        return "error"
    if isinstance(v, bool):
        return "boolean"
    if is_int(v):
        return "int"
    if isinstance(v, float):
        return "float"
    if isinstance(v, str):
        return "empty" if v == "" else "string"
    if isinstance(v, MMap):
        return "map"
    if isinstance(v, list):
        return "array"
    if isinstance(v, Funct):
        return "funct"
    if v is None:
        return "empty"   # JSON null
    raise Unmodelled("typeof %r" % (v,))


def copyv(v):
    if isinstance(v, MMap):
        m = MMap()
        for k, x in v.items():
            m[k] = copyv(x)
        return m
    if isinstance(v, list):
        return [copyv(x) for x in v]
    return v


def fmt_scalar(v):
    """Text of a scalar as Miller prints it (print, dot operator, record values in non-JSON output)."""
    if isinstance(v, bool):
        return "true" if v else "false"
    if is_int(v):
        return str(v)
    if isinstance(v, float):
        return mn.fmtf(v)
    if isinstance(v, str):
        return v
    if v is ABSENT:
        return ""
    if v is ERROR:
        return "(error)"
    if v is None:
        return ""
    raise Unmodelled("fmt_scalar %r" % (v,))


def to_json(v):
    """Single-line JSON as json_stringify / --ojsonl print it: `{"a": 1, "b": [1, 2]}`."""
    if isinstance(v, MMap):
        return "{" + ", ".join(json.dumps(k, ensure_ascii=False) + ": " + to_json(x) for k, x in v.items()) + "}"
    if isinstance(v, list):
        return "[" + ", ".join(to_json(x) for x in v) + "]"
    if isinstance(v, bool):
        return "true" if v else "false"
    if is_num(v):
        return fmt_scalar(v)
    if isinstance(v, str):
        return json.dumps(v, ensure_ascii=False)
    if v is None:
        return "null"
    if v is ERROR:
        return "(error)"
    raise Unmodelled("to_json %r" % (v,))


def to_json_multiline(v, indent=0):
    """Multi-line JSON as `dump` and a bare `print map` produce it."""
    pad = "  " * indent
    if isinstance(v, MMap):
        if not v:
            return "{}"
        lines = []
        items = list(v.items())
        for i, (k, x) in enumerate(items):
            lines.append(pad + "  " + json.dumps(k, ensure_ascii=False) + ": " + to_json_multiline(x, indent + 1) + ("," if i < len(items) - 1 else ""))
        return "{\n" + "\n".join(lines) + "\n" + pad + "}"
    if isinstance(v, list):
        if any(isinstance(x, (MMap, list)) for x in v):
            raise Unmodelled("multi-line rendering of arrays of collections")
        return "[" + ", ".join(to_json(x) for x in v) + "]"
    return to_json(v)


def key_of(i):
    """Map keys are strings; ints are converted (reference-main-maps.md)."""
    if is_int(i):
        return str(i)
    if isinstance(i, str):
        if i == "":
            # the empty string has its own type ("empty"); Miller refuses it as an index, the reference only speaks of string and int keys
            raise Unmodelled("empty string as a map key")
        return i
    raise Unmodelled("map key of type %s" % typeof(i))


TYPE_OK = {
    "var": lambda v: True, "any": lambda v: True,
    "str": lambda v: isinstance(v, str),
    "num": lambda v: is_num(v),
    "int": lambda v: is_int(v),
    "float": lambda v: isinstance(v, float),
    "bool": lambda v: isinstance(v, bool),
    "map": lambda v: isinstance(v, MMap),
    "arr": lambda v: isinstance(v, list),
    "funct": lambda v: isinstance(v, Funct),
}


def check_type(t, v, what):
    if t in (None, "var", "any"):
        if v is ERROR:
            raise Unmodelled("error value bound to a declared variable")
        return
    if v is ABSENT or v is ERROR or v is None:
        raise Unmodelled("typed binding of absent/error/null")
    if not TYPE_OK[t](v):
        raise Fatal("type check %s failed for %s (%s)" % (t, what, typeof(v)))


class Scope(object):
    """One function activation: a stack of block frames. Each frame: name -> [type, value]."""

    def __init__(self):
        self.frames = [{}]

    def push(self):
        self.frames.append({})

    def pop(self):
        self.frames.pop()

    def find(self, name):
        for f in reversed(self.frames):
            if name in f:
                return f[name]
        return None

    def declare(self, t, name, v):
        f = self.frames[-1]
        if name in f:
            raise Fatal("redeclaration of %s in the same scope" % name)
        check_type(t, v, name)
        f[name] = [t, copyv(v)]

    def assign(self, name, v):
        slot = self.find(name)
        if slot is None:
            if v is ERROR:
                raise Unmodelled("error value assigned to a local")
            self.frames[-1][name] = [None, copyv(v)]
        else:
            if len(slot) > 2 and slot[2] and slot[0] not in (None, "var", "any") and v is not ABSENT and v is not ERROR and v is not None and not TYPE_OK[slot[0]](v):
                # "function arguments can optionally be typed, with type enforced when the function is called":
                # whether a later assignment to the parameter is checked too is not said
                raise Unmodelled("assignment to a typed parameter with a value of another type")
            check_type(slot[0], v, name)
            slot[1] = copyv(v)


ARITH = ("+", "-", "*", "/", "//", "%", "**")
BITS = ("&", "|", "^", "<<", ">>", ">>>")
CMP = ("<", "<=", ">", ">=", "==", "!=")


def _single(outcomes):
    """model_num returns the set of acceptable outcomes; the interpreter needs exactly one."""
    if len(outcomes) != 1 or outcomes[0][1] is None or outcomes[0][0] not in ("int", "float"):
        raise Unmodelled("arithmetic outcome not determined by the documentation: %r" % (outcomes,))
    return outcomes[0][1]


def arith(op, a, b):
    # absent rules (reference-main-null-data.md): absent op x = x; absent op absent = absent
    if a is ABSENT and b is ABSENT:
        return ABSENT
    if a is ABSENT:
        if op in ("+", "*", "&", "|", "^") and is_num(b):
            return b
        raise Unmodelled("absent on the left of %s" % op)
    if b is ABSENT:
        if is_num(a):
            return a
        raise Unmodelled("absent with non-number")
    if a is ERROR or b is ERROR:
        return ERROR
    if not is_num(a) or not is_num(b):
        if (isinstance(a, str) and a == "") or (isinstance(b, str) and b == ""):
            # the empty-value rules are C08's subject; an empty string computed inside the DSL (joink of an empty map) does not
            # even behave like an empty field value there
            raise Unmodelled("arithmetic on an empty string")
        if isinstance(a, (str, bool, MMap, list, Funct)) or isinstance(b, (str, bool, MMap, list, Funct)):
            return ERROR
        raise Unmodelled("arith %s %s %s" % (typeof(a), op, typeof(b)))
    if op in BITS:
        if not (is_int(a) and is_int(b)):
            return ERROR
        return _single(mn.int_binop(op, a, b))
    if is_int(a) and is_int(b):
        if op in ("/", "//", "%") and b == 0:
            raise Unmodelled("division by zero")
        if op == "**" and (b < 0 or b > 8 or abs(a) > 1000):
            raise Unmodelled("large or negative exponent")
        return _single(mn.int_binop(op, a, b))
    if op in ("/", "//", "%") and float(b) == 0.0:
        raise Unmodelled("division by zero")
    if op == "**":
        raise Unmodelled("float exponentiation")
    r = _single(mn.float_binop(op, a, b))
    if r != r or r in (float("inf"), float("-inf")):
        raise Unmodelled("non-finite float")
    return r


def compare(op, a, b):
    if a is ERROR or b is ERROR:
        return ERROR
    if a is ABSENT or b is ABSENT:
        raise Unmodelled("comparison with absent")
    if is_num(a) and is_num(b):
        pass
    elif isinstance(a, str) and isinstance(b, str):
        if a == "" or b == "":
            if op not in ("==", "!="):
                raise Unmodelled("ordering with empty")
    elif isinstance(a, bool) and isinstance(b, bool) and op in ("==", "!="):
        pass
    else:
        raise Unmodelled("comparison %s %s %s" % (typeof(a), op, typeof(b)))
    return {"<": a < b, "<=": a <= b, ">": a > b, ">=": a >= b, "==": a == b, "!=": a != b}[op]


class Interp(object):
    def __init__(self, program, mode="put", quiet=False, presets=None, flatsep=".", invert=False):
        self.invert = invert        # filter -x
        self.funcs, self.subrs, self.begins, self.ends, self.main = {}, {}, [], [], []
        for s in program:
            if s[0] == "func":
                self.funcs[s[1]] = s
            elif s[0] == "subr":
                self.subrs[s[1]] = s
            elif s[0] == "begin":
                self.begins.append(s[1])
            elif s[0] == "end":
                self.ends.append(s[1])
            else:
                self.main.append(s)
        self.mode = mode            # put | filter
        self.quiet = quiet
        self.oos = MMap(presets or [])
        self.out = []               # ("rec", MMap) | ("text", str)
        self.rec = None
        self.ctx = {"NR": ABSENT, "FNR": ABSENT, "NF": ABSENT, "FILENAME": ABSENT, "FILENUM": ABSENT}
        self.filter_result = None
        self.scope = None
        self.depth = 0
        self.steps = 0
        self.partial_line = ""

    # ----- driver
    def run(self, records, filename="(stdin)"):
        self.ctx["FILENAME"] = filename
        self.ctx["FILENUM"] = 1
        for b in self.begins:
            self.rec = None
            self.run_top_block(b)
        n = 0
        for r in records:
            n += 1
            self.rec = copyv(r)
            self.ctx["NR"] = n
            self.ctx["FNR"] = n
            self.filter_result = None
            self.run_top_block(self.main, main=True)
            keep = True
            if self.mode == "filter":
                if self.filter_result is None:
                    raise Unmodelled("filter program without a bare boolean")
                keep = self.filter_result != self.invert
            elif self.filter_result is not None:
                keep = self.filter_result
            if keep and not self.quiet:
                self.emit_record(self.rec)
        self.rec = None
        for b in self.ends:
            self.run_top_block(b)
        if self.partial_line:
            self.out.append(("text", self.partial_line))
            self.partial_line = ""
        return self.out

    def run_top_block(self, block, main=False):
        self.scope = Scope()
        try:
            self.exec_block(block, new_frame=False, top=main)
        except _Return:
            raise Unmodelled("return outside a function")
        except (_Break, _Continue):
            raise Unmodelled("break/continue outside a loop")

    def tick(self):
        self.steps += 1
        if self.steps > 20000:
            raise Unmodelled("step budget exceeded")

    # ----- output
    def text(self, s, newline=True):
        s = self.partial_line + s
        if newline:
            self.partial_line = ""
            for ln in s.split("\n"):
                self.out.append(("text", ln))
        else:
            self.partial_line = s

    def emit_record(self, m):
        if self.partial_line:
            raise Unmodelled("record output after printn without newline")
        self.out.append(("rec", copyv(m)))

    # ----- expressions
    def ev(self, e):
        self.tick()
        k = e[0]
        if k in ("int", "float", "str", "bool"):
            return e[1]
        if k == "absent":
            return ABSENT
        if k == "field":
            self.need_rec()
            return self.rec.get(e[1], ABSENT)
        if k == "fieldx":
            self.need_rec()
            name = self.ev(e[1])
            if name is ABSENT:
                return ABSENT
            return self.rec.get(key_of(name), ABSENT)
        if k in ("posname", "posval"):
            self.need_rec()
            n = self.ev(e[1])
            if not is_int(n):
                raise Unmodelled("positional index of type %s" % typeof(n))
            keys = list(self.rec.keys())
            if 1 <= n <= len(keys):
                return keys[n - 1] if k == "posname" else self.rec[keys[n - 1]]
            return ABSENT
        if k == "srec":
            self.need_rec()
            return copyv(self.rec)
        if k == "oos":
            return self.oos.get(e[1], ABSENT)
        if k == "oosall":
            return copyv(self.oos)
        if k == "local":
            slot = self.scope.find(e[1])
            return slot[1] if slot is not None else ABSENT
        if k == "ctx":
            if e[1] == "NF":
                self.need_rec()
                return len(self.rec)
            if e[1] == "M_PI":
                return math.pi
            v = self.ctx[e[1]]
            return v
        if k == "bin":
            return self.ev_bin(e[1], e[2], e[3])
        if k == "un":
            return self.ev_un(e[1], self.ev(e[2]))
        if k == "tern":
            c = self.ev(e[1])
            if not isinstance(c, bool):
                raise Unmodelled("non-boolean ternary condition")
            return self.ev(e[2]) if c else self.ev(e[3])
        if k == "index":
            v = self.ev(e[1])
            for ie in e[2]:
                v = self.index(v, self.ev(ie))
            return v
        if k == "slice":
            return self.slice(self.ev(e[1]), self.ev(e[2]) if e[2] is not None else None, self.ev(e[3]) if e[3] is not None else None)
        if k == "maplit":
            m = MMap()
            for ke, ve in e[1]:
                kk, vv = self.ev(ke), self.ev(ve)
                if vv is ABSENT or vv is ERROR or kk is ABSENT:
                    raise Unmodelled("absent/error inside a map literal")
                m[key_of(kk)] = copyv(vv)
            return m
        if k == "arrlit":
            out = []
            for x in e[1]:
                v = self.ev(x)
                if v is ABSENT or v is ERROR:
                    raise Unmodelled("absent/error inside an array literal")
                out.append(copyv(v))
            return out
        if k == "funclit":
            return Funct(e[1], e[2])
        if k == "call":
            return self.call(e[1], e[2])
        raise Unmodelled("expression %r" % (k,))

    def need_rec(self):
        if self.rec is None:
            raise Unmodelled("record reference in begin/end")

    def truth(self, v, what):
        if isinstance(v, bool):
            return v
        raise Unmodelled("non-boolean %s (%s)" % (what, typeof(v)))

    def ev_bin(self, op, ae, be):
        if op == "&&":
            a = self.ev(ae)
            if a is ABSENT:
                raise Unmodelled("absent in &&")
            if not self.truth(a, "&& operand"):
                return False
            b = self.ev(be)
            return self.truth(b, "&& operand")
        if op == "||":
            a = self.ev(ae)
            if self.truth(a, "|| operand"):
                return True
            return self.truth(self.ev(be), "|| operand")
        if op == "??":
            a = self.ev(ae)
            if a is ABSENT:
                return self.ev(be)
            if a is None or a is ERROR:
                raise Unmodelled("?? on null/error")
            return a
        if op == "???":
            a = self.ev(ae)
            if a is ABSENT or a == "" and isinstance(a, str):
                return self.ev(be)
            if a is None or a is ERROR:
                raise Unmodelled("??? on null/error")
            return a
        a, b = self.ev(ae), self.ev(be)
        if op == "^^":
            return self.truth(a, "^^") != self.truth(b, "^^")
        if op in ARITH or op in BITS:
            return arith(op, a, b)
        if op in CMP:
            return compare(op, a, b)
        if op == "<=>":
            if is_int(a) and is_int(b):
                return (a > b) - (a < b)
            raise Unmodelled("<=> on non-ints")
        if op == ".":
            if isinstance(a, (MMap, list, Funct)) or isinstance(b, (MMap, list, Funct)):
                raise Unmodelled("dot on collections")
            if a is ERROR or b is ERROR:
                return ERROR
            if a is ABSENT and b is ABSENT:
                return ABSENT
            if a is ABSENT or b is ABSENT:
                other = b if a is ABSENT else a
                if not isinstance(other, str):
                    # "absent rules: the other operand is returned" vs "non-strings are coerced": 0 or "0"? not pinned
                    raise Unmodelled("dot of absent and a non-string")
                return other
            if a is None or b is None:
                raise Unmodelled("dot on null")
            r = fmt_scalar(a) + fmt_scalar(b)
            if len(r) > 4000:
                raise Unmodelled("string longer than 4000 characters")
            return r
        if op in ("min", "max"):
            raise Unmodelled(op)
        raise Unmodelled("operator %s" % op)

    def ev_un(self, op, a):
        if op == "!":
            return not self.truth(a, "! operand")
        if op == "-":
            if a is ABSENT:
                return ABSENT
            if is_int(a):
                if a == mn.IMIN:
                    raise Unmodelled("negation of the least int")
                return -a
            if isinstance(a, float):
                return -a
            if a is ERROR or isinstance(a, (str, bool, MMap, list)):
                if isinstance(a, str) and a == "":
                    raise Unmodelled("unary minus of an empty string")
                return ERROR
        if op == "+":
            if is_num(a) or a is ABSENT:
                return a
        if op == "~":
            if is_int(a):
                return ~a
        raise Unmodelled("unary %s on %s" % (op, typeof(a)))

    def index(self, v, i):
        if v is ABSENT:
            return ABSENT
        if i is ABSENT:
            raise Unmodelled("absent index")
        if isinstance(v, MMap):
            if isinstance(i, (list, MMap, bool, float)) or i is ERROR or i is None:
                raise Unmodelled("map index of type %s" % typeof(i))
            return v.get(key_of(i), ABSENT)
        if isinstance(v, list):
            if not is_int(i):
                raise Unmodelled("array index of type %s" % typeof(i))
            n = len(v)
            if i == 0:
                raise Unmodelled("array index 0")
            if 1 <= i <= n:
                return v[i - 1]
            if -n <= i <= -1:
                return v[n + i]
            return ABSENT
        raise Unmodelled("indexing a %s" % typeof(v))

    def slice(self, v, lo, hi):
        if isinstance(v, list):
            n = len(v)
        elif isinstance(v, str):
            n = len(v)
        else:
            raise Unmodelled("slice of %s" % typeof(v))
        lo = 1 if lo is None else lo
        hi = n if hi is None else hi
        if not is_int(lo) or not is_int(hi):
            raise Unmodelled("non-int slice bounds")
        if lo == 0 or hi == 0:
            raise Unmodelled("slice bound 0")
        if lo < 0:
            lo = n + 1 + lo
            if lo < 1:
                raise Unmodelled("negative slice bound below the start")
        if hi < 0:
            hi = n + 1 + hi
            if hi < 1:
                raise Unmodelled("negative slice bound below the start")
        if isinstance(v, str):
            if not (1 <= lo <= hi <= n):
                raise Unmodelled("string slice out of bounds")
            return v[lo - 1:hi]
        hi = min(hi, n)
        if lo > hi:
            return []
        return copyv(v[lo - 1:hi])

    # ----- calls
    def call(self, name, argexprs):
        if name in self.funcs:
            f = self.funcs[name]
            args = [self.ev(a) for a in argexprs]
            return self.invoke(f[2], f[3], f[4], args, name, is_func=True)
        args = [self.ev(a) for a in argexprs]
        return self.builtin(name, args)

    def invoke(self, params, rettype, block, args, name, is_func):
        if len(params) != len(args):
            raise Unmodelled("arity")
        self.depth += 1
        if self.depth > 40:
            raise Unmodelled("recursion too deep")
        saved = self.scope
        self.scope = Scope()
        try:
            for (pn, pt), a in zip(params, args):
                if a is ERROR:
                    raise Unmodelled("error value passed as argument")
                if a is ABSENT and pt not in (None, "var", "any"):
                    raise Unmodelled("absent passed to a typed parameter")
                if a is not ABSENT:
                    check_type(pt, a, "parameter %s of %s" % (pn, name))
                self.scope.frames[-1][pn] = [pt, copyv(a), True]
            ret = ABSENT
            try:
                self.exec_block(block, new_frame=True)
            except _Return as r:
                ret = r.value
            except (_Break, _Continue):
                raise Unmodelled("break/continue escaping a function")
            except Fatal as e:
                if is_func:
                    e.in_udf = True     # raised while a user-defined *function* body was executing
                raise
            if is_func:
                if ret is None:
                    raise Unmodelled("bare return in a function")
                if rettype not in (None, "var", "any"):
                    if ret is ABSENT:
                        raise Unmodelled("absent returned from a function with a declared return type")
                    check_type(rettype, ret, "return value of %s" % name)
                return copyv(ret)
            return ABSENT
        finally:
            self.scope = saved
            self.depth -= 1

    def call_funct(self, f, args):
        """Function literals "have access to local variables defined in their enclosing scope" (reference-dsl-user-defined-functions.md):
        the body runs in a new frame on top of the current scope (the literal is called where it was written), not in a fenced-off one."""
        if not isinstance(f, Funct):
            raise Unmodelled("calling a non-function")
        if len(f.params) != len(args):
            raise Unmodelled("arity of a function literal")
        self.depth += 1
        if self.depth > 40:
            raise Unmodelled("recursion too deep")
        self.scope.push()
        try:
            for pn, a in zip(f.params, args):
                if a is ERROR:
                    raise Unmodelled("error value passed as argument")
                self.scope.frames[-1][pn] = [None, copyv(a), True]
            try:
                self.exec_block(f.block, new_frame=True)
            except _Return as r:
                if r.value is None:
                    raise Unmodelled("bare return in a function literal")
                return copyv(r.value)
            except (_Break, _Continue):
                raise Unmodelled("break/continue escaping a function literal")
            return ABSENT
        finally:
            self.scope.pop()
            self.depth -= 1

    def builtin(self, name, a):
        r = self._builtin(name, a)
        if isinstance(r, str) and len(r) > 4000:
            # e.g. json_stringify of a value that contains an earlier json_stringify of itself doubles with every round of escaping
            raise Unmodelled("string longer than 4000 characters")
        if isinstance(r, (list, MMap)) and len(r) > 2000:
            raise Unmodelled("collection with more than 2000 entries")
        return r

    def _builtin(self, name, a):
        if any(x is ERROR for x in a) and name not in ("typeof", "is_error", "is_absent", "is_present"):
            raise Unmodelled("error argument to %s" % name)
        if name == "typeof":
            return typeof(a[0])
        if name == "asserting_int":
            if not is_int(a[0]):
                raise Fatal("asserting_int")
            return a[0]
        if name == "is_absent":
            return a[0] is ABSENT
        if name == "is_present":
            return a[0] is not ABSENT
        if name == "is_error":
            return a[0] is ERROR
        if name == "is_map":
            return isinstance(a[0], MMap)
        if name == "is_array":
            return isinstance(a[0], list)
        if name == "is_string":
            return isinstance(a[0], str)
        if name == "is_empty":
            return isinstance(a[0], str) and a[0] == ""
        if name == "is_not_empty":
            if a[0] is ABSENT:
                return False
            if isinstance(a[0], (MMap, list)):
                raise Unmodelled("is_not_empty on collections")
            return not (isinstance(a[0], str) and a[0] == "")
        if name == "is_int":
            return is_int(a[0])
        if name == "is_numeric":
            return is_num(a[0])
        if any(x is ABSENT for x in a) and name not in ("length", "depth", "leafcount", "json_stringify"):
            raise Unmodelled("absent argument to %s" % name)
        if name == "strlen":
            # reference-main-data-types.md: "doing strlen or substr on a non-string" is an error value
            if isinstance(a[0], str):
                if a[0] == "boolean":
                    raise Unmodelled("the name typeof gives to booleans is not pinned by the documentation (bool/boolean)")
                return len(a[0])
            if is_num(a[0]) or isinstance(a[0], bool):
                return ERROR
            raise Unmodelled("strlen of %s" % typeof(a[0]))
        if name in ("toupper", "tolower", "capitalize"):
            if not isinstance(a[0], str):
                raise Unmodelled(name + " of a non-string")
            s = a[0]
            if not s.isascii():
                raise Unmodelled("non-ASCII case mapping")
            return s.upper() if name == "toupper" else s.lower() if name == "tolower" else s[:1].upper() + s[1:]
        if name == "length":
            v = a[0]
            if v is ABSENT:
                return 0
            if isinstance(v, (MMap, list)):
                return len(v)
            return 1
        if name == "depth":
            def d(v):
                if isinstance(v, MMap):
                    return 1 + max([d(x) for x in v.values()] or [0])
                if isinstance(v, list):
                    return 1 + max([d(x) for x in v] or [0])
                return 0
            if a[0] is ABSENT:
                raise Unmodelled("depth of absent")
            return d(a[0])
        if name == "leafcount":
            def lc(v):
                if isinstance(v, MMap):
                    return sum(lc(x) for x in v.values())
                if isinstance(v, list):
                    return sum(lc(x) for x in v)
                return 1
            if a[0] is ABSENT:
                raise Unmodelled("leafcount of absent")
            return lc(a[0])
        if name == "haskey":
            v, k = a
            if isinstance(v, MMap):
                if not (is_int(k) or isinstance(k, str)):
                    return False
                return key_of(k) in v
            if isinstance(v, list):
                if not is_int(k):
                    return False
                return 1 <= k <= len(v) or -len(v) <= k <= -1
            raise Unmodelled("haskey on a value that is neither map nor array")
        if name == "mapsum":
            m = MMap()
            for x in a:
                if not isinstance(x, MMap):
                    raise Unmodelled("mapsum of non-map")
                for k, v in x.items():
                    m[k] = copyv(v)
            return m
        if name == "mapdiff":
            if not all(isinstance(x, MMap) for x in a) or not a:
                raise Unmodelled("mapdiff")
            m = copyv(a[0])
            for x in a[1:]:
                for k in x:
                    m.pop(k, None)
            return m
        if name in ("mapexcept", "mapselect"):
            if not isinstance(a[0], MMap):
                raise Unmodelled(name)
            keys = []
            for x in a[1:]:
                if isinstance(x, list):
                    keys += [key_of(y) for y in x]
                else:
                    keys.append(key_of(x))
            m = MMap()
            for k, v in a[0].items():
                if (k in keys) == (name == "mapselect"):
                    m[k] = copyv(v)
            return m
        if name == "get_keys":
            if not isinstance(a[0], MMap):
                raise Unmodelled("get_keys")
            return list(a[0].keys())
        if name == "get_values":
            if not isinstance(a[0], MMap):
                raise Unmodelled("get_values")
            return [copyv(v) for v in a[0].values()]
        if name == "append":
            if not isinstance(a[0], list):
                raise Unmodelled("append")
            return copyv(a[0]) + [copyv(a[1])]
        if name == "concat":
            out = []
            for x in a:
                if isinstance(x, list):
                    out += copyv(x)
                else:
                    out.append(copyv(x))
            if len(a) == 1 and not isinstance(a[0], list):
                return [copyv(a[0])]
            return out
        if name == "json_stringify":
            if a[0] is ABSENT:
                raise Unmodelled("json_stringify(absent)")
            return to_json(a[0])
        if name == "joink":
            if not isinstance(a[0], MMap) or not isinstance(a[1], str):
                raise Unmodelled("joink")
            return a[1].join(a[0].keys())
        if name == "joinv":
            if not isinstance(a[0], (MMap, list)) or not isinstance(a[1], str):
                raise Unmodelled("joinv")
            vals = a[0].values() if isinstance(a[0], MMap) else a[0]
            if any(isinstance(v, (MMap, list)) or v is None for v in vals):
                raise Unmodelled("joinv of nested")
            return a[1].join(fmt_scalar(v) for v in vals)
        if name == "splitax":
            if not isinstance(a[0], str) or not isinstance(a[1], str) or a[1] == "" or a[0] == "":
                raise Unmodelled("splitax")
            return a[0].split(a[1])
        if name in ("min", "max"):
            if not a or not all(is_int(x) for x in a):
                raise Unmodelled("min/max of non-ints")
            return min(a) if name == "min" else max(a)
        if name == "abs":
            if is_int(a[0]) and a[0] != mn.IMIN:
                return abs(a[0])
            raise Unmodelled("abs")
        if name in ("apply", "select", "reduce", "fold", "sort", "any", "every"):
            return self.hof(name, a)
        raise Unmodelled("builtin %s" % name)

    def hof(self, name, a):
        coll = a[0]
        if name == "sort":
            if len(a) == 1:
                if isinstance(coll, list) and all(is_int(x) for x in coll):
                    return sorted(coll)
                raise Unmodelled("sort without comparator on non-int array")
            f = a[1]
            if not isinstance(f, Funct):
                raise Unmodelled("sort flags")
            import functools
            if isinstance(coll, list):
                def cmpf(x, y):
                    r = self.call_funct(f, [x, y])
                    if not is_int(r):
                        raise Unmodelled("comparator result")
                    return r
                return sorted(copyv(coll), key=functools.cmp_to_key(cmpf))
            raise Unmodelled("sort of map with function")
        f = a[-1] if name != "fold" else a[1]
        if not isinstance(f, Funct):
            raise Unmodelled("HOF without function")
        if isinstance(coll, list):
            if name == "apply":
                out = []
                for x in coll:
                    r = self.call_funct(f, [x])
                    if r is ABSENT or r is ERROR:
                        raise Unmodelled("apply result")
                    out.append(r)
                return out
            if name == "select":
                out = []
                for x in coll:
                    r = self.call_funct(f, [x])
                    if not isinstance(r, bool):
                        raise Unmodelled("select predicate result")
                    if r:
                        out.append(copyv(x))
                return out
            if name == "any":
                res = False
                for x in coll:
                    r = self.call_funct(f, [x])
                    if not isinstance(r, bool):
                        raise Unmodelled("any predicate result")
                    if r:
                        return True
                return res
            if name == "every":
                for x in coll:
                    r = self.call_funct(f, [x])
                    if not isinstance(r, bool):
                        raise Unmodelled("every predicate result")
                    if not r:
                        return False
                return True
            if name == "reduce":
                if not coll:
                    raise Unmodelled("reduce of empty")
                acc = copyv(coll[0])
                for x in coll[1:]:
                    acc = self.call_funct(f, [acc, x])
                    if acc is ABSENT or acc is ERROR:
                        raise Unmodelled("reduce accumulator")
                return acc
            if name == "fold":
                acc = copyv(a[2])
                for x in coll:
                    acc = self.call_funct(f, [acc, x])
                    if acc is ABSENT or acc is ERROR:
                        raise Unmodelled("fold accumulator")
                return acc
        if isinstance(coll, MMap):
            if name == "apply":
                out = MMap()
                for k, v in coll.items():
                    r = self.call_funct(f, [k, v])
                    if not isinstance(r, MMap) or len(r) != 1:
                        raise Unmodelled("apply on map must return single-entry maps")
                    for kk, vv in r.items():
                        out[kk] = vv
                return out
            if name == "select":
                out = MMap()
                for k, v in coll.items():
                    r = self.call_funct(f, [k, v])
                    if not isinstance(r, bool):
                        raise Unmodelled("select predicate result")
                    if r:
                        out[k] = copyv(v)
                return out
        raise Unmodelled("HOF %s on %s" % (name, typeof(coll)))

    # ----- lvalues
    def assign(self, lv, v, declared=None):
        """Assignment with an absent right-hand side is skipped for every lvalue kind."""
        if v is ABSENT:
            return
        k = lv[0]
        if k == "local":
            self.scope.assign(lv[1], v)
        elif k == "field":
            self.need_rec()
            if isinstance(v, Funct):
                raise Unmodelled("function assigned to a field")
            self.rec[lv[1]] = copyv(v)
        elif k == "fieldx":
            self.need_rec()
            name = self.ev(lv[1])
            if name is ABSENT or v is ERROR:
                raise Unmodelled("absent field name / error value")
            self.rec[key_of(name)] = copyv(v)
        elif k == "posname":
            self.need_rec()
            n = self.ev(lv[1])
            if not is_int(n) or not isinstance(v, str) or v == "":
                raise Unmodelled("positional name assignment operands")
            keys = list(self.rec.keys())
            if 1 <= n <= len(keys):
                old = keys[n - 1]
                if v != old and v in self.rec:
                    raise Unmodelled("positional rename onto an existing field")
                new = MMap()
                for kk, vv in self.rec.items():
                    new[v if kk == old else kk] = vv
                self.rec = new
        elif k == "posval":
            self.need_rec()
            n = self.ev(lv[1])
            if not is_int(n) or isinstance(v, (MMap, list, Funct)) or v is ERROR:
                raise Unmodelled("positional value assignment operands")
            keys = list(self.rec.keys())
            if 1 <= n <= len(keys):
                self.rec[keys[n - 1]] = v
        elif k == "srec":
            self.need_rec()
            if not isinstance(v, MMap):
                raise Unmodelled("$* assigned a non-map")
            self.rec = copyv(v)
        elif k == "oos":
            if v is ERROR or isinstance(v, Funct):
                raise Unmodelled("error/function assigned to an oosvar")
            self.oos[lv[1]] = copyv(v)
        elif k == "oosall":
            if not isinstance(v, MMap):
                raise Unmodelled("@* assigned a non-map")
            self.oos = copyv(v)
        elif k == "index":
            self.assign_indexed(lv, v)
        else:
            raise Unmodelled("lvalue %r" % (k,))

    def base_get_set(self, base):
        """Returns (getter, setter) for the base of an indexed lvalue."""
        k = base[0]
        if k == "local":
            def g():
                s = self.scope.find(base[1])
                return s[1] if s is not None else ABSENT

            def st(v):
                s = self.scope.find(base[1])
                if s is None:
                    self.scope.frames[-1][base[1]] = [None, v]
                else:
                    if len(s) > 2 and s[2] and s[0] not in (None, "var", "any") and not TYPE_OK[s[0]](v):
                        raise Unmodelled("assignment to a typed parameter with a value of another type")
                    check_type(s[0], v, base[1])
                    s[1] = v
            return g, st
        if k == "oos":
            return (lambda: self.oos.get(base[1], ABSENT)), (lambda v: self.oos.__setitem__(base[1], v))
        if k == "field":
            self.need_rec()
            return (lambda: self.rec.get(base[1], ABSENT)), (lambda v: self.rec.__setitem__(base[1], v))
        if k == "srec":
            self.need_rec()

            def sr(v):
                self.rec = v
            return (lambda: self.rec), sr
        if k == "oosall":
            def so(v):
                self.oos = v
            return (lambda: self.oos), so
        raise Unmodelled("indexed lvalue base %r" % (k,))

    def assign_indexed(self, lv, v):
        if v is ERROR or isinstance(v, Funct):
            raise Unmodelled("error/function stored in a collection")
        base, idxs = lv[1], [self.ev(i) for i in lv[2]]
        if any(i is ABSENT or i is ERROR for i in idxs):
            raise Unmodelled("absent/error index in an lvalue")
        g, st = self.base_get_set(base)
        cur = g()
        if cur is ABSENT:
            cur = MMap()          # auto-create results in maps, even for int keys
            st(cur)
        elif not isinstance(cur, (MMap, list)):
            raise Unmodelled("indexed assignment into a scalar")
        node = cur
        for j, i in enumerate(idxs):
            last = j == len(idxs) - 1
            if isinstance(node, MMap):
                if isinstance(i, (bool, float, MMap, list)) or i is None:
                    raise Unmodelled("map key type")
                kk = key_of(i)
                if last:
                    node[kk] = copyv(v)
                else:
                    nxt = node.get(kk, ABSENT)
                    if nxt is ABSENT:
                        nxt = MMap()     # auto-deepen
                        node[kk] = nxt
                    elif not isinstance(nxt, (MMap, list)):
                        raise Unmodelled("indexing through a scalar in an lvalue")
                    node = nxt
            elif isinstance(node, list):
                if not is_int(i) or i == 0:
                    raise Unmodelled("array lvalue index")
                n = len(node)
                if i < 0:
                    if i < -n:
                        raise Unmodelled("negative array lvalue index out of bounds")
                    pos = n + i
                else:
                    pos = i - 1
                if pos < n:
                    if last:
                        node[pos] = copyv(v)
                    else:
                        nxt = node[pos]
                        if not isinstance(nxt, (MMap, list)):
                            raise Unmodelled("indexing through a scalar in an lvalue")
                        node = nxt
                else:
                    if not last:
                        raise Unmodelled("auto-extend with deeper indices")
                    while len(node) < pos:
                        node.append(None)   # null-gaps
                    node.append(copyv(v))
            else:
                raise Unmodelled("indexed assignment into %s" % typeof(node))

    def unset(self, lv):
        k = lv[0]
        if k == "local":
            s = self.scope.find(lv[1])
            if s is not None:
                s[1] = ABSENT
        elif k == "field":
            self.need_rec()
            self.rec.pop(lv[1], None)
        elif k == "fieldx":
            self.need_rec()
            n = self.ev(lv[1])
            if n is ABSENT:
                raise Unmodelled("unset $[absent]")
            self.rec.pop(key_of(n), None)
        elif k == "srec":
            self.need_rec()
            self.rec = MMap()
        elif k == "oos":
            self.oos.pop(lv[1], None)
        elif k == "oosall":
            self.oos = MMap()
        elif k == "index":
            idxs = [self.ev(i) for i in lv[2]]
            if any(i is ABSENT or i is ERROR for i in idxs):
                raise Unmodelled("absent index in unset")
            g, _ = self.base_get_set(lv[1])
            node = g()
            for i in idxs[:-1]:
                if node is ABSENT:
                    return
                node = self.index(node, i)
            if node is ABSENT:
                return
            i = idxs[-1]
            if isinstance(node, MMap):
                node.pop(key_of(i), None)
            elif isinstance(node, list):
                if not is_int(i) or i == 0:
                    raise Unmodelled("unset array index")
                n = len(node)
                if 1 <= i <= n:
                    del node[i - 1]
                elif -n <= i <= -1:
                    del node[n + i]
                else:
                    raise Unmodelled("unset of an out-of-bounds array index")
            else:
                raise Unmodelled("unset inside a scalar")
        else:
            raise Unmodelled("unset %r" % (k,))

    # ----- statements
    def exec_block(self, block, new_frame=True, top=False):
        if new_frame:
            self.scope.push()
        try:
            for s in block:
                self.exec(s, top)
        finally:
            if new_frame:
                self.scope.pop()

    def cond(self, e, what):
        v = self.ev(e)
        if isinstance(v, bool):
            return v
        raise Unmodelled("%s condition of type %s" % (what, typeof(v)))

    def exec(self, s, top=False):
        self.tick()
        k = s[0]
        if k == "assign":
            self.assign(s[1], self.ev(s[2]))
        elif k == "opassign":
            # `t op= e` is `t = t op e`; an lvalue tuple is also a valid expression tuple
            cur = self.ev(s[2])
            self.assign(s[2], self._ev_bin_const(s[1], cur, s[3]))
        elif k == "decl":
            v = self.ev(s[3])
            if v is ABSENT and s[1] != "var":
                raise Unmodelled("typed declaration with absent")
            self.scope.declare(s[1], s[2], v)
        elif k == "unset":
            self.unset(s[1])
        elif k == "if":
            for c, b in s[1]:
                if self.cond(c, "if"):
                    self.exec_block(b)
                    return
            if s[2] is not None:
                self.exec_block(s[2])
        elif k == "patact":
            if not top:
                raise Unmodelled("pattern-action block below top level")
            if self.cond(s[1], "pattern"):
                self.exec_block(s[2])
        elif k == "while":
            while self.cond(s[1], "while"):
                try:
                    self.exec_block(s[2])
                except _Break:
                    break
                except _Continue:
                    continue
        elif k == "dowhile":
            while True:
                try:
                    self.exec_block(s[1])
                except _Break:
                    break
                except _Continue:
                    pass
                if not self.cond(s[2], "do-while"):
                    break
        elif k == "for3":
            # the loop has its own scope: declarations in the init part are loop-local; an undeclared
            # init variable uses an outer variable if there is one, else is loop-local
            self.scope.push()
            try:
                for st in s[1]:
                    self.exec(st)
                while s[2] is None or self.cond(s[2], "for"):
                    try:
                        self.exec_block(s[4])
                    except _Break:
                        break
                    except _Continue:
                        pass
                    for st in s[3]:
                        self.exec(st)
            finally:
                self.scope.pop()
        elif k in ("fork", "forkv", "formulti"):
            self.exec_for(s)
        elif k == "break":
            raise _Break()
        elif k == "continue":
            raise _Continue()
        elif k == "print":
            if s[1] is None:
                self.text("")
            else:
                self.text(self.print_text(self.ev(s[1])))
        elif k == "printm":
            # print with comma-separated arguments: joined by a space
            self.text(" ".join(self.print_text(self.ev(x)) for x in s[1]))
        elif k == "printn":
            self.text(self.print_text(self.ev(s[1])), newline=False)
        elif k == "dump":
            self.text(to_json_multiline(self.oos))
        elif k == "dumpe":
            v = self.ev(s[1])
            if isinstance(v, (MMap, list)):
                self.text(to_json_multiline(v))
            elif v is ABSENT or v is ERROR:
                raise Unmodelled("dump of absent/error")
            else:
                self.text(fmt_scalar(v))
        elif k == "emit1":
            v = self.ev(s[1])
            if not isinstance(v, MMap):
                raise Unmodelled("emit1 of non-map")
            self.emit_record(v)
        elif k in ("emit", "emitp"):
            self.exec_emit(s[1], s[2], prefixed=(k == "emitp"))
        elif k == "emitl":
            self.exec_emit_lashed(s[1], s[2], s[3])
        elif k == "emitf":
            r = MMap()
            for n in s[1]:
                v = self.oos.get(n, ABSENT)
                if v is ABSENT or isinstance(v, (MMap, list)):
                    raise Unmodelled("emitf of absent or collection")
                r[n] = v
            self.emit_record(r)
        elif k == "filter":
            v = self.ev(s[1])
            if v is ABSENT:
                return
            if not isinstance(v, bool):
                raise Unmodelled("filter of non-boolean")
            self.filter_result = v
        elif k == "bare":
            v = self.ev(s[1])
            if self.mode == "filter":
                if isinstance(v, bool):
                    self.filter_result = v
                elif v is ABSENT:
                    pass
                else:
                    raise Unmodelled("bare non-boolean in filter")
            else:
                raise Unmodelled("bare expression in put")
        elif k == "return":
            raise _Return(self.ev(s[1]) if s[1] is not None else None)
        elif k == "callsub":
            f = self.subrs[s[1]]
            args = [self.ev(a) for a in s[2]]
            self.invoke(f[2], None, f[3], args, s[1], is_func=False)
        else:
            raise Unmodelled("statement %r" % (k,))

    def _ev_bin_const(self, op, a, be):
        if op == "&&":
            if not self.truth(a, "&&="):
                return False
            return self.truth(self.ev(be), "&&=")
        if op == "||":
            if self.truth(a, "||="):
                return True
            return self.truth(self.ev(be), "||=")
        if op == "??":
            return self.ev(be) if a is ABSENT else a
        if op == "???":
            return self.ev(be) if (a is ABSENT or (isinstance(a, str) and a == "")) else a
        b = self.ev(be)
        if op == "^^":
            return self.truth(a, "^^=") != self.truth(b, "^^=")
        if op in ARITH or op in BITS:
            return arith(op, a, b)
        if op == ".":
            if a is ABSENT and b is ABSENT:
                return ABSENT
            if a is ABSENT or b is ABSENT:
                other = b if a is ABSENT else a
                if not isinstance(other, str):
                    raise Unmodelled("dot of absent and a non-string")
                return other
            if isinstance(a, (MMap, list)) or isinstance(b, (MMap, list)) or a is ERROR or b is ERROR or a is None or b is None:
                raise Unmodelled("dot-assign operands")
            r = fmt_scalar(a) + fmt_scalar(b)
            if len(r) > 4000:
                raise Unmodelled("string longer than 4000 characters")
            return r
        raise Unmodelled("op-assign %s" % op)

    def print_text(self, v):
        if isinstance(v, (MMap, list)):
            return to_json_multiline(v)
        if isinstance(v, Funct):
            raise Unmodelled("print of a function")
        return fmt_scalar(v)

    def exec_for(self, s):
        k = s[0]
        coll = self.ev(s[2] if k == "fork" else s[3])
        if coll is ABSENT:
            return
        if not isinstance(coll, (MMap, list)):
            raise Unmodelled("for over %s" % typeof(coll))
        coll = copyv(coll)   # loops iterate over a copy taken before the loop
        if k == "fork":
            items = [(kk,) for kk in coll.keys()] if isinstance(coll, MMap) else [(x,) for x in coll]
            names = [s[1]]
            body = s[3]
        elif k == "forkv":
            items = list(coll.items()) if isinstance(coll, MMap) else [(i + 1, x) for i, x in enumerate(coll)]
            names = [s[1], s[2]]
            body = s[4]
        else:
            if not isinstance(coll, MMap):
                raise Unmodelled("multi-key for over an array")
            nk = len(s[1])
            items = []

            def walk(m, prefix):
                for kk, vv in m.items():
                    if len(prefix) + 1 == nk:
                        items.append(tuple(prefix + [kk]) + (vv,))
                    elif isinstance(vv, MMap):
                        walk(vv, prefix + [kk])
                    else:
                        raise Unmodelled("multi-key for over a map that is not deep enough")
            walk(coll, [])
            names = list(s[1]) + [s[2]]
            body = s[4]
        for it in items:
            self.scope.push()
            try:
                for n, v in zip(names, it):
                    # map keys come back as strings unless they look like ints (keys are stored as strings;
                    # the docs' examples show int-looking keys usable as numbers) -> only string keys are generated
                    self.scope.frames[-1][n] = [None, copyv(v)]
                try:
                    self.exec_block(body, new_frame=True)
                except _Break:
                    break
                except _Continue:
                    continue
            finally:
                self.scope.pop()

    # ----- emit family
    def emittable(self, em):
        """Returns (name, value)."""
        if em[0] == "oos":
            return em[1], self.oos.get(em[1], ABSENT)
        if em[0] == "local":
            s = self.scope.find(em[1])
            return em[1], (s[1] if s is not None else ABSENT)
        if em[0] == "maplit":
            return "_", self.ev(em)
        if em[0] == "srec":
            self.need_rec()
            return "_", copyv(self.rec)
        raise Unmodelled("emittable %r" % (em[0],))

    @staticmethod
    def uniform_depth(v):
        """Depth of a map whose leaves all sit at the same level, else None."""
        if not isinstance(v, MMap):
            return 0
        ds = set(Interp.uniform_depth(x) for x in v.values())
        if len(ds) != 1 or None in ds:
            return None
        return 1 + ds.pop()

    def exec_emit(self, em, name_exprs, prefixed):
        name, v = self.emittable(em)
        names = [self.ev(n) for n in name_exprs]
        if not all(isinstance(n, str) for n in names):
            raise Unmodelled("emit names must be strings")
        if v is ABSENT:
            return
        if not isinstance(v, MMap):
            if names:
                raise Unmodelled("emit of a scalar with names")
            if em[0] not in ("oos", "local") or isinstance(v, list):
                raise Unmodelled("emit of a non-map non-variable")
            r = MMap()
            r[name] = v
            self.emit_record(r)
            return
        if not v:
            raise Unmodelled("emit of an empty map")
        d = self.uniform_depth(v)
        if d is None or any(isinstance(x, list) for x in _leaves(v)):
            raise Unmodelled("emit of a map with leaves at different levels")
        k = len(names)
        named = em[0] in ("oos", "local")
        if k > d:
            raise Unmodelled("more emit names than levels")
        if k == d:
            if not named:
                raise Unmodelled("full split of an unnamed emittable")
            for path, leaf in _walk(v, k):
                r = MMap()
                for n, p in zip(names, path):
                    r[n] = p
                r[name] = leaf
                self.emit_record(r)
            return
        if not prefixed:
            if k == 0:
                if d == 1:
                    self.emit_record(v)
                elif d == 2:
                    for sub in v.values():
                        self.emit_record(sub)
                else:
                    raise Unmodelled("emit of a map deeper than 2 without names")
                return
            if k == d - 1:
                for path, sub in _walk(v, k):
                    r = MMap()
                    for n, p in zip(names, path):
                        r[n] = p
                    for kk, vv in sub.items():
                        if kk in r:
                            raise Unmodelled("emit key collides with a name")
                        r[kk] = vv
                    self.emit_record(r)
                return
            raise Unmodelled("emit with fewer names than levels-1")
        # emitp: the variable's name stays as the prefix; with JSON output the rest is nested under it
        if not named:
            raise Unmodelled("emitp of an unnamed emittable")
        if k == 0:
            r = MMap()
            r[name] = v
            self.emit_record(r)
            return
        for path, sub in _walk(v, k):
            r = MMap()
            for n, p in zip(names, path):
                r[n] = p
            if name in r:
                raise Unmodelled("emitp name collides")
            r[name] = sub
            self.emit_record(r)

    def exec_emit_lashed(self, ems, name_exprs, prefixed):
        vals = [self.emittable(e) for e in ems]
        names = [self.ev(n) for n in name_exprs]
        if not all(isinstance(n, str) for n in names) or not all(e[0] == "oos" for e in ems):
            raise Unmodelled("lashed emit operands")
        if all(v is ABSENT for _, v in vals):
            return      # nothing has been accumulated (e.g. an empty stream): nothing to emit
        if any(v is ABSENT or not isinstance(v, MMap) for _, v in vals):
            raise Unmodelled("lashed emit of absent/non-map")
        ds = [self.uniform_depth(v) for _, v in vals]
        k = len(names)
        if any(d is None or d != k for d in ds):
            raise Unmodelled("lashed emit: names must exhaust the levels")
        first_name, first = vals[0]
        for path, leaf in _walk(first, k):
            r = MMap()
            for n, p in zip(names, path):
                r[n] = p
            r[first_name] = leaf
            for n2, v2 in vals[1:]:
                node = v2
                for p in path:
                    node = node.get(p, ABSENT) if isinstance(node, MMap) else ABSENT
                if node is ABSENT:
                    raise Unmodelled("lashed emit with differing key sets")
                r[n2] = node
            self.emit_record(r)


def _walk(m, k, prefix=()):
    """(path, value) for every path of length k, in insertion order."""
    if k == 0:
        yield prefix, m
        return
    for kk, vv in m.items():
        if k == 1:
            yield prefix + (kk,), vv
        else:
            for x in _walk(vv, k - 1, prefix + (kk,)):
                yield x


def _leaves(m):
    for v in m.values():
        if isinstance(v, MMap):
            for x in _leaves(v):
                yield x
        else:
            yield v


# --------------------------------------------------------------------------------------------
# rendering to Miller text

PREC = {}
for _lvl, _ops in enumerate([["?:"], ["||"], ["^^"], ["&&"], ["==", "!=", "=~", "!=~", "<=>"], ["<", "<=", ">", ">="], ["|"], ["^"], ["&"], ["<<", ">>", ">>>"],
                             ["+", "-", ".+", ".-"], ["*", "/", "//", "%", ".*", "./"], ["."], ["unary"], ["??"], ["???"], ["**"]]):
    for _o in _ops:
        PREC[_o] = _lvl
RIGHT_ASSOC = {"**", "?:"}


def prec_of(e):
    if e[0] == "bin":
        return PREC[e[1]]
    if e[0] == "un":
        return PREC["unary"]
    if e[0] == "tern":
        return PREC["?:"]
    if e[0] in ("int", "float") and (e[1] < 0 or (isinstance(e[1], float) and math.copysign(1, e[1]) < 0)):
        return PREC["unary"]
    return 100


def rstr(s):
    return '"' + s.replace("\\", "\\\\").replace('"', '\\"').replace("\n", "\\n").replace("\t", "\\t") + '"'


def render_expr(e, minimal=False):
    """minimal=False parenthesises every operator application (semantics checks); minimal=True uses only the
    parentheses the documented precedence table requires (parse-shape checks)."""
    k = e[0]
    if k == "int":
        return str(e[1])
    if k == "float":
        return mn.fmtf(e[1]) if "." in mn.fmtf(e[1]) else mn.fmtf(e[1]) + ".0"
    if k == "str":
        return rstr(e[1])
    if k == "bool":
        return "true" if e[1] else "false"
    if k == "absent":
        return "absent"
    if k == "field":
        return "$" + e[1] if e[1].isidentifier() else "${" + e[1] + "}"
    if k == "fieldx":
        return "$[" + render_expr(e[1], minimal) + "]"
    if k == "posname":
        return "$[[" + render_expr(e[1], minimal) + "]]"
    if k == "posval":
        return "$[[[" + render_expr(e[1], minimal) + "]]]"
    if k == "srec":
        return "$*"
    if k == "oos":
        return "@" + e[1]
    if k == "oosall":
        return "@*"
    if k == "local":
        return e[1]
    if k == "ctx":
        return e[1]
    if k == "bin":
        op = e[1]
        if not minimal:
            return "(" + render_expr(e[2]) + " " + op + " " + render_expr(e[3]) + ")"
        p = PREC[op]
        l, r = render_expr(e[2], True), render_expr(e[3], True)
        pl, pr = prec_of(e[2]), prec_of(e[3])
        if pl < p or (pl == p and op in RIGHT_ASSOC):
            l = "(" + l + ")"
        if pr < p or (pr == p and op not in RIGHT_ASSOC):
            r = "(" + r + ")"
        return l + " " + op + " " + r
    if k == "un":
        a = render_expr(e[2], minimal)
        if not minimal:
            return "(" + e[1] + " " + a + ")" if prec_of(e[2]) <= PREC["unary"] or True else e[1] + a
        if prec_of(e[2]) < PREC["unary"]:
            a = "(" + a + ")"
        return e[1] + " " + a
    if k == "tern":
        if not minimal:
            return "(" + render_expr(e[1]) + " ? " + render_expr(e[2]) + " : " + render_expr(e[3]) + ")"
        c, a, b = render_expr(e[1], True), render_expr(e[2], True), render_expr(e[3], True)
        if prec_of(e[1]) <= PREC["?:"]:
            c = "(" + c + ")"
        if prec_of(e[2]) <= PREC["?:"]:
            a = "(" + a + ")"
        return c + " ? " + a + " : " + b
    if k == "index":
        return render_postfix_base(e[1], minimal) + "".join("[" + render_expr(i, minimal) + "]" for i in e[2])
    if k == "slice":
        return render_postfix_base(e[1], minimal) + "[" + (render_expr(e[2], minimal) if e[2] is not None else "") + ":" + (render_expr(e[3], minimal) if e[3] is not None else "") + "]"
    if k == "maplit":
        return "{" + ", ".join(render_expr(a, minimal) + ": " + render_expr(b, minimal) for a, b in e[1]) + "}"
    if k == "arrlit":
        return "[" + ", ".join(render_expr(a, minimal) for a in e[1]) + "]"
    if k == "call":
        return e[1] + "(" + ", ".join(render_expr(a, minimal) for a in e[2]) + ")"
    if k == "funclit":
        return "func(" + ", ".join(e[1]) + ") {" + render_block(e[2], 0, inline=True) + "}"
    raise ValueError("render_expr %r" % (k,))


def render_postfix_base(e, minimal):
    if e[0] in ("local", "oos", "field", "srec", "oosall", "call", "maplit", "arrlit", "str", "index"):
        return render_expr(e, minimal)
    raise Unmodelled("indexing a parenthesised expression is not in the grammar")


def render_lvalue(lv):
    if lv[0] == "index":
        return render_lvalue(lv[1]) + "".join("[" + render_expr(i) + "]" for i in lv[2])
    return render_expr(lv)


def render_params(params):
    return ", ".join((pt + " " if pt else "") + pn for pn, pt in params)


def render_stmt(s, ind=0):
    pad = "  " * ind
    k = s[0]
    if k == "assign":
        return pad + render_lvalue(s[1]) + " = " + render_expr(s[2]) + ";"
    if k == "opassign":
        return pad + render_lvalue(s[2]) + " " + s[1] + "= " + render_expr(s[3]) + ";"
    if k == "decl":
        return pad + s[1] + " " + s[2] + " = " + render_expr(s[3]) + ";"
    if k == "unset":
        return pad + "unset " + render_lvalue(s[1]) + ";"
    if k == "if":
        out = ""
        for i, (c, b) in enumerate(s[1]):
            out += (pad + "if" if i == 0 else " elif") + " (" + render_expr(c) + ") {\n" + render_block(b, ind + 1) + pad + "}"
        if s[2] is not None:
            out += " else {\n" + render_block(s[2], ind + 1) + pad + "}"
        return out
    if k == "patact":
        return pad + render_expr(s[1]) + " {\n" + render_block(s[2], ind + 1) + pad + "}"
    if k == "while":
        return pad + "while (" + render_expr(s[1]) + ") {\n" + render_block(s[2], ind + 1) + pad + "}"
    if k == "dowhile":
        return pad + "do {\n" + render_block(s[1], ind + 1) + pad + "} while (" + render_expr(s[2]) + ");"
    if k == "for3":
        ini = ", ".join(render_stmt(x).rstrip(";") for x in s[1])
        upd = ", ".join(render_stmt(x).rstrip(";") for x in s[3])
        return pad + "for (" + ini + "; " + (render_expr(s[2]) if s[2] is not None else "") + "; " + upd + ") {\n" + render_block(s[4], ind + 1) + pad + "}"
    if k == "fork":
        return pad + "for (" + s[1] + " in " + render_expr(s[2]) + ") {\n" + render_block(s[3], ind + 1) + pad + "}"
    if k == "forkv":
        return pad + "for (" + s[1] + ", " + s[2] + " in " + render_expr(s[3]) + ") {\n" + render_block(s[4], ind + 1) + pad + "}"
    if k == "formulti":
        return pad + "for ((" + ", ".join(s[1]) + "), " + s[2] + " in " + render_expr(s[3]) + ") {\n" + render_block(s[4], ind + 1) + pad + "}"
    if k == "break":
        return pad + "break;"
    if k == "continue":
        return pad + "continue;"
    if k == "print":
        return pad + ("print;" if s[1] is None else "print " + render_expr(s[1]) + ";")
    if k == "printm":
        return pad + "print " + ", ".join(render_expr(x) for x in s[1]) + ";"
    if k == "printn":
        return pad + "printn " + render_expr(s[1]) + ";"
    if k == "dump":
        return pad + "dump;"
    if k == "dumpe":
        return pad + "dump " + render_expr(s[1]) + ";"
    if k == "emit1":
        return pad + "emit1 " + render_expr(s[1]) + ";"
    if k in ("emit", "emitp"):
        return pad + k + " " + render_expr(s[1]) + "".join(", " + render_expr(n) for n in s[2]) + ";"
    if k == "emitl":
        return pad + ("emitp" if s[3] else "emit") + " (" + ", ".join(render_expr(x) for x in s[1]) + ")" + "".join(", " + render_expr(n) for n in s[2]) + ";"
    if k == "emitf":
        return pad + "emitf " + ", ".join("@" + n for n in s[1]) + ";"
    if k == "filter":
        return pad + "filter " + render_expr(s[1]) + ";"
    if k == "bare":
        return pad + render_expr(s[1]) + ";"
    if k == "return":
        return pad + ("return;" if s[1] is None else "return " + render_expr(s[1]) + ";")
    if k == "callsub":
        return pad + "call " + s[1] + "(" + ", ".join(render_expr(a) for a in s[2]) + ");"
    if k == "func":
        return pad + "func " + s[1] + "(" + render_params(s[2]) + ")" + (": " + s[3] if s[3] else "") + " {\n" + render_block(s[4], ind + 1) + pad + "}"
    if k == "subr":
        return pad + "subr " + s[1] + "(" + render_params(s[2]) + ") {\n" + render_block(s[3], ind + 1) + pad + "}"
    if k == "begin":
        return pad + "begin {\n" + render_block(s[1], ind + 1) + pad + "}"
    if k == "end":
        return pad + "end {\n" + render_block(s[1], ind + 1) + pad + "}"
    raise ValueError("render_stmt %r" % (k,))


def render_block(block, ind=0, inline=False):
    if inline:
        return " ".join(render_stmt(s, 0) for s in block)
    return "".join(render_stmt(s, ind) + "\n" for s in block)


def render_program(prog):
    return render_block(prog, 0)
