"""Reference models for number inference, number formatting and int64/float64 arithmetic.

Written from docs/src/reference-main-arithmetic.md, reference-main-data-types.md, function help
text and the statements of C06/C07 - not from the Go source.
"""
import math
import re
import struct

import numpy as np

M63 = 2 ** 63
M64 = 2 ** 64
IMIN = -M63
IMAX = M63 - 1


def fits(v):
    return IMIN <= v <= IMAX


def wrap(v):
    return (v + M63) % M64 - M63


def fmtf(x):
    """How Miller prints a *computed* float: shortest round-trip digits, positional (observed and
    validated against the binary on the C07 grid)."""
    if x != x:
        return "NaN"
    if x == float("inf"):
        return "+Inf"
    if x == float("-inf"):
        return "-Inf"
    if x == 0:
        return "-0" if math.copysign(1, x) < 0 else "0"
    return np.format_float_positional(x, trim="-")


def bits(x):
    return struct.unpack("<Q", struct.pack("<d", x))[0]


def same_float(a, b):
    if a != a and b != b:
        return True
    return bits(a) == bits(b)


def parse_float_out(s):
    """Parse a float as Miller prints it."""
    if s in ("+Inf", "Inf"):
        return float("inf")
    if s == "-Inf":
        return float("-inf")
    if s == "NaN":
        return float("nan")
    return float(s)


# ---------------------------------------------------------------------------------------------
# inference (C06)

DEC = re.compile(r"[+-]?(0|[1-9][0-9]*)$")
LZ = re.compile(r"[+-]?0[0-9]+$")
HEX = re.compile(r"[+-]?0[xX][0-9a-fA-F]+$")
BIN = re.compile(r"[+-]?0[bB][01]+$")
OCT = re.compile(r"[+-]?0[oO][0-7]+$")
FLT = re.compile(r"[+-]?([0-9]+\.?[0-9]*|\.[0-9]+)([eE][+-]?[0-9]+)?$")
LZFLT = re.compile(r"[+-]?0[0-9]+")


def infer(s, flag=""):
    """Returns a list of acceptable (type, value) pairs; value None = any.

    flag in '', '-S', '-A', '-O'.  More than one entry = underdetermined by the documentation.
    """
    if s == "":
        return [("empty", None)]
    if flag == "-S":
        return [("string", None)]

    def asint(v):
        if flag == "-A":
            return [("float", float(v))]
        return [("int", v)]

    if DEC.match(s):
        v = int(s)
        if fits(v):
            return asint(v)
        try:
            return [("float", float(v))]
        except OverflowError:
            return [("float", None), ("string", None)]
    if LZ.match(s):
        if flag == "-O":
            body = s.lstrip("+-")
            neg = s.startswith("-")
            if all(c in "01234567" for c in body):
                v = int(body, 8)
            else:
                v = int(body, 10)
            v = -v if neg else v
            if fits(v):
                return asint(v)
            return [("float", None), ("string", None), ("int", None)]
        return [("string", None)]
    for R, base in ((HEX, 16), (BIN, 2), (OCT, 8)):
        if R.match(s):
            neg = s.startswith("-")
            body = s.lstrip("+-")[2:]
            v = int(body, base)
            digits = body.lstrip("0") or "0"
            if v >= M63:
                if v < M64:
                    # statement: 16-digit hex from 0x8 upward is two's complement negative.
                    # binary/octal with the top bit set and signed forms: docs silent -> underdetermined
                    if base == 16 and not neg and not s.startswith("+"):
                        return asint(v - M64)
                    return [("int", None), ("float", None), ("string", None)]
                return [("float", None), ("string", None)]
            return asint(-v if neg else v)
    if FLT.match(s):
        # leading-zero floats like 08.5: docs talk about leading zeros for ints only; from-data
        # numbers like 007.5 -> underdetermined between float and string
        try:
            f = float(s)
        except ValueError:
            return [("string", None)]
        if f in (float("inf"), float("-inf")):
            return [("string", None), ("float", None)]
        body = s.lstrip("+-")
        if re.match(r"0[0-9]", body):
            return [("float", f), ("string", None), ("int", None)]
        return [("float", f)]
    return [("string", None)]


# ---------------------------------------------------------------------------------------------
# arithmetic (C07).  Each model returns a list of acceptable outcomes:
#   ("int", v) | ("float", x) | ("float", None) any float | ("error", None) | ("num", None) any number

ANYNUM = [("int", None), ("float", None)]
ANY = [("int", None), ("float", None), ("error", None)]


def _ovf(op, a, b):
    fa, fb = float(a), float(b)
    if op == "+":
        return fa + fb
    if op == "-":
        return fa - fb
    if op == "*":
        return fa * fb
    raise ValueError(op)


def int_binop(op, a, b):
    """a, b Python ints within int64."""
    if op in ("+", "-"):
        r = a + b if op == "+" else a - b
        if fits(r):
            return [("int", r)]
        return [("float", _ovf(op, a, b))]
    if op == "*":
        r = a * b
        f = _ovf("*", a, b)
        if fits(r):
            # reference-main-arithmetic.md documents that products whose double-precision value is
            # within the last 1024-granule of 2^63 are converted to float; the statement says exact.
            if abs(f) >= 9223372036854774784.0:
                return [("int", r), ("float", f)]
            return [("int", r)]
        return [("float", f)]
    if op == "/":
        if b == 0:
            return ANY
        if a % b == 0:
            r = a // b
            if fits(r):
                return [("int", r)]
            return [("float", float(a) / float(b))]
        return [("float", float(a) / float(b))]
    if op == "//":
        if b == 0:
            return ANY
        r = a // b
        if fits(r):
            return [("int", r)]
        return [("float", float(r))]
    if op == "%":
        if b == 0:
            return ANY
        return [("int", a % b)]
    if op == "**":
        if b >= 0:
            if a in (0, 1, -1) or b < 70000:
                if a in (0, 1):
                    r = a ** min(b, 2) if not (a == 0 and b == 0) else 1
                elif a == -1:
                    r = 1 if b % 2 == 0 else -1
                elif b > 64:
                    r = None
                else:
                    r = a ** b
                if r is not None and fits(r):
                    return [("int", r)]
            try:
                f = math.pow(float(a), float(b))
            except OverflowError:
                f = float("inf") if (a > 0 or b % 2 == 0) else float("-inf")
            return [("float~", f)]
        # negative exponent -> float
        if a == 0:
            return [("float", float("inf")), ("error", None)]
        try:
            f = math.pow(float(a), float(b))
        except OverflowError:
            f = float("inf")
        # integral results (1 ** -k, -1 ** -k, underflow to 0) may be printed as int
        if f == int(f):
            return [("float~", f), ("int", int(f))]
        return [("float~", f)]
    if op == ".+":
        return [("int", wrap(a + b))]
    if op == ".-":
        return [("int", wrap(a - b))]
    if op == ".*":
        return [("int", wrap(a * b))]
    if op == "./":
        if b == 0:
            return ANY
        q = abs(a) // abs(b)
        if (a < 0) != (b < 0):
            q = -q
        return [("int", wrap(q))]
    if op == "&":
        return [("int", wrap((a % M64) & (b % M64)))]
    if op == "|":
        return [("int", wrap((a % M64) | (b % M64)))]
    if op == "^":
        return [("int", wrap((a % M64) ^ (b % M64)))]
    if op in ("<<", ">>", ">>>"):
        if not (0 <= b <= 63):
            return [("int", None), ("error", None)]
        if op == "<<":
            return [("int", wrap((a % M64) << b))]
        if op == ">>":
            return [("int", a >> b)]
        return [("int", wrap((a % M64) >> b))]
    if op == "min":
        return [("int", min(a, b))]
    if op == "max":
        return [("int", max(a, b))]
    if op == "roundm":
        if b == 0:
            return ANY
        if abs(a) >= 2 ** 51 or abs(b) >= 2 ** 51:
            # documented as round(x/m)*m, which is evaluated in floating point: beyond 2^53 the
            # documentation does not determine the low bits
            return [("int", None), ("float", None)]
        # round(x/m)*m, int-preserving.  Ties: docs silent -> accept either neighbour multiple.
        q, r = divmod(a, b)
        cands = set()
        lo = q * b
        hi = (q + 1) * b
        if r == 0:
            cands.add(lo)
        else:
            dlo, dhi = abs(a - lo), abs(a - hi)
            if dlo < dhi:
                cands.add(lo)
            elif dhi < dlo:
                cands.add(hi)
            else:
                cands.update((lo, hi))
        out = []
        for c in cands:
            if fits(c):
                out.append(("int", c))
            else:
                out.extend([("float", None), ("int", None)])
        return out
    raise ValueError(op)


def float_binop(op, a, b):
    """IEEE on converted operands; a, b are int or float, at least one float."""
    fa, fb = float(a), float(b)
    try:
        if op == "+":
            return [("float", fa + fb)]
        if op == "-":
            return [("float", fa - fb)]
        if op == "*":
            return [("float", fa * fb)]
        if op == "/":
            if fb == 0:
                return ANY
            return [("float", fa / fb)]
        if op == "//":
            if fb == 0 or fa != fa or fb != fb or math.isinf(fa) or math.isinf(fb):
                return ANY
            return [("float~", float(math.floor(fa / fb)))]
        if op == "%":
            if fb == 0 or fa != fa or fb != fb or math.isinf(fa) or math.isinf(fb):
                return ANY
            return [("float%", (fa, fb))]
        if op == "**":
            if (fa != 0 and abs(fa) < 2.3e-308) or (fb != 0 and abs(fb) < 2.3e-308):
                return [("float", None)]  # subnormal operands: libm implementations differ
            if abs(fb) > 1e4:
                return [("float", None)]  # pow's conditioning ~ |b ln a|: implementations legitimately differ
            try:
                f = math.pow(fa, fb)
            except OverflowError:
                return [("float", None)]
            except ValueError:
                return [("float", None), ("error", None)]
            return [("float~", f)]
        if op == "min":
            if fa != fa or fb != fb:
                return ANYNUM
            # mixed int/float: docs: "mixes of int and float -> float"
            return [("float", min(fa, fb)), ("num=", min(fa, fb))]
        if op == "max":
            if fa != fa or fb != fb:
                return ANYNUM
            return [("float", max(fa, fb)), ("num=", max(fa, fb))]
    except (OverflowError, ZeroDivisionError):
        return ANY
    raise ValueError(op)


def int_unop(op, a):
    if op == "neg":
        if a == IMIN:
            # -(−2^63) does not fit; statement demands "never a wrapped integer" for + - *; unary minus
            # is the same operator family.
            return [("float", float(M63))]
        return [("int", -a)]
    if op == "pos":
        return [("int", a)]
    if op == "~":
        return [("int", ~a)]
    if op == "abs":
        if a == IMIN:
            return [("float", float(M63))]
        return [("int", abs(a))]
    if op in ("ceil", "floor", "round"):
        return [("int", a)]
    if op == "sgn":
        return [("int", (a > 0) - (a < 0))]
    if op == "bitcount":
        return [("int", bin(a % M64).count("1"))]
    raise ValueError(op)


def float_unop(op, x):
    if op == "neg":
        return [("float", -x)]
    if op == "pos":
        return [("float", x)]
    if op == "abs":
        return [("float", abs(x))]
    if x != x:
        return ANYNUM
    if op == "ceil":
        return [("float", float(math.ceil(x)) if not math.isinf(x) else x)]
    if op == "floor":
        return [("float", float(math.floor(x)) if not math.isinf(x) else x)]
    if op == "round":
        if math.isinf(x):
            return [("float", x)]
        # round half away from zero (C round); docs say "nearest integer": accept both tie rules
        f = math.floor(x)
        d = x - f
        if d == 0.5:
            return [("float", float(f)), ("float", float(f + 1))]
        return [("float", float(f + 1) if d > 0.5 else float(f))]
    if op == "sgn":
        return [("float", (x > 0) - (x < 0) + 0.0), ("num=", (x > 0) - (x < 0))]
    raise ValueError(op)


def modop(op, a, b, m):
    """madd/msub/mmul/mexp on ints: exact modular arithmetic."""
    if m <= 0:
        # modulus zero or negative: docs silent; must not crash
        return ANY + [("absent", None)]
    if op == "madd":
        return [("int", (a + b) % m)]
    if op == "msub":
        return [("int", (a - b) % m)]
    if op == "mmul":
        return [("int", (a * b) % m)]
    if op == "mexp":
        if b < 0:
            return ANY
        return [("int", pow(a, b, m))]
    raise ValueError(op)


def outcome_matches(acc, typ, text):
    """Does Miller's (typeof, printed text) match one of the acceptable outcomes?"""
    for kind, v in acc:
        if kind == "error":
            if typ == "error" or text == "(error)":
                return True
        elif kind == "absent":
            if typ in ("absent", "empty") or text == "":
                return True
        elif kind == "int":
            if typ == "int":
                if v is None:
                    return True
                try:
                    if int(text) == v:
                        return True
                except ValueError:
                    pass
        elif kind == "num":
            if typ in ("int", "float"):
                return True
        elif kind == "num=":
            if typ in ("int", "float"):
                try:
                    if parse_float_out(text) == v:
                        return True
                except ValueError:
                    pass
        elif kind == "float":
            if typ == "float":
                if v is None:
                    return True
                try:
                    g = parse_float_out(text)
                except ValueError:
                    continue
                if same_float(g, v) or (g == v):
                    return True
        elif kind == "float~":  # 1-2 ulp tolerance (libm pow etc.)
            if typ == "float":
                try:
                    g = parse_float_out(text)
                except ValueError:
                    continue
                if (g != g and v != v) or g == v:
                    return True
                if math.isinf(g) or math.isinf(v):
                    # overflow boundary: accept inf vs huge
                    if abs(g) > 1e308 or abs(v) > 1e308:
                        return True
                    continue
                if abs(g - v) <= 1e-10 * abs(v) + 5e-324:
                    return True
        elif kind == "float%":
            if typ == "float":
                fa, fb = v
                try:
                    g = parse_float_out(text)
                except ValueError:
                    continue
                # a - b*floor(a/b) evaluated in doubles: result has the divisor's sign (or is 0, or
                # rounds up to b itself), and differs from the exact remainder by rounding error only
                q = fa / fb
                if math.isinf(q) or abs(q) >= 2.0 ** 52 or abs(fb) * (abs(q) + 1) >= 1.7e308:
                    return True  # quotient not representable: low bits undetermined by the docs
                r = math.fmod(fa, fb)
                if r != 0 and ((r > 0) != (fb > 0)):
                    r += fb
                tol = 8 * math.ulp(max(abs(fa), abs(fb)))
                for cand in (r, r + fb, r - fb):
                    if abs(g - cand) <= tol:
                        return True
    return False
