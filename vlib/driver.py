"""./check <ID> [--tier quick|thorough] [--seed N] [--replay FILE] [--sub a,b] [--jobs N]"""
import argparse
import importlib
import json
import os
import resource
import signal
import sys
import time

from . import core, build


def main():
    ap = argparse.ArgumentParser()
    ap.add_argument("prop")
    ap.add_argument("--tier", default=os.environ.get("VERIF_TIER") or "quick", choices=["quick", "thorough"])
    ap.add_argument("--seed", type=int, default=None)
    ap.add_argument("--replay", default=None)
    ap.add_argument("--sub", default=None)
    ap.add_argument("--jobs", type=int, default=None)
    ap.add_argument("--no-evidence", action="store_true")
    a = ap.parse_args()
    prop = a.prop.upper()
    seed = a.seed
    if seed is None:
        try:
            seed = int(os.environ.get("VERIF_SEED", "") or core.DEFAULT_SEED)
        except ValueError:
            seed = core.DEFAULT_SEED
    # our own memory guard (children have their own limits)
    try:
        resource.setrlimit(resource.RLIMIT_CORE, (0, 0))
    except Exception:
        pass
    sys.path.insert(0, core.VERIF)
    if a.replay:
        return replay(prop, a.replay, a.tier, seed)
    try:
        code, ev = core.run_property(prop, a.tier, seed, only_sub=a.sub.split(",") if a.sub else None, jobs=a.jobs)
    except MemoryError:
        print("INCONCLUSIVE property=%s out of memory" % prop)
        return 2
    if ev is not None and not a.no_evidence and not a.sub:
        core.write_evidence(prop, ev)
    if ev is not None:
        cov = ev["coverage"]
        sys.stderr.write("[%s] tier=%s seed=%d evaluations=%d distinct_nontrivial=%d violations=%d wall=%.1fs exit=%d\n" % (
            prop, a.tier, seed, cov["evaluations"], cov["distinct_nontrivial"], ev["violations"], ev["wall_s"], code))
        for name, s in cov["sub_checks"].items():
            sys.stderr.write("    %-28s eval=%-8d nontriv=%-7d known=%s inconcl=%d inv=%d %.1fs\n" % (
                name, s["evaluations"], s["distinct_nontrivial"], s["known_finding_hits"] or "-", s["inconclusive"],
                s["mlr_invocations"], s["wall_s"]))
            for nt in s["notes"][:6]:
                sys.stderr.write("        note: %s\n" % nt[:400])
    return code


def replay(prop, path, tier, seed):
    from . import run as _run
    mod = importlib.import_module("props.%s" % prop.lower())
    try:
        mlr_path = build.ensure()
        mlr_verif_path = build.ensure(tags="verif") if getattr(mod, "NEEDS_VERIF_BUILD", False) else None
    except build.BuildFailed as e:
        print("BUILD-FAILED property=%s\n%s" % (prop, e))
        return 2
    if hasattr(mod, "prepare"):
        mod.prepare(tier)
    with open(path) as f:
        rep = json.load(f)
    preds = getattr(mod, "KNOWN", {})
    mlr = _run.Mlr(mlr_path)
    active = {}
    for fnd in core.load_findings():
        if fnd.get("property") == prop and fnd.get("status") == "known" and fnd["id"] in preds:
            try:
                if preds[fnd["id"]]["probe"](mlr):
                    active[fnd["id"]] = preds[fnd["id"]]["match"]
            except Exception:
                pass
    v = core.replay_case(mod, prop, rep, mlr_path, mlr_verif_path, active, tier, seed)
    if v:
        print("VIOLATION property=%s replay=%s" % (prop, path))
        print("  sub=%s: %s" % (v["sub"], v["message"][:3000]))
        return 1
    print("replay passes: %s" % path)
    return 0


if __name__ == "__main__":
    try:
        rc = main()
    except KeyboardInterrupt:
        rc = 2
    sys.stdout.flush()
    sys.exit(rc)
