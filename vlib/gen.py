"""Shared Hypothesis strategies and small codecs (DESIGN.md section 3).

All text is handled as *latin-1 decoded bytes* ("bstr") where byte exactness matters: a Python str whose
code points are all < 256 stands for the byte string with those values.  UTF-8 content is represented by
its UTF-8 bytes decoded as latin-1.  This lets Python's csv module carry arbitrary bytes.
"""
import csv
import io
import json

from hypothesis import strategies as st

# ---------------------------------------------------------------------------------------------
# number spellings (C03, C06)

SPELLINGS = ["0xff", "0XFF", "0b101", "0o17", "+7", "007", "1e5", "1E5", "1.500", "-0", "0x00FF", "1_000", " 1", "1 ",
             "99999999999999999999", "1.", ".5", "-.5e+3", "0.10", "1e-3", "abc", "", "true", "0x", "1.2.3", "+0x1F",
             "-0.0", "+1.0e+00", "0007.50", "1e309", "0x8000000000000000", "0xFFFFFFFFFFFFFFFF", "9223372036854775807",
             "-9223372036854775808", "9223372036854775808", "1.0000000000000000000000001", "100000000000000000000000",
             "0.1e1", "5e-324", "00", "-007", "+0", "0e0", "1E+05", "Inf", "NaN", "-", "+", ".", "e", "0b", "1d5"]

spelling = st.sampled_from(SPELLINGS)


def u8(s):
    """Python text -> bstr (its UTF-8 bytes as latin-1 chars)."""
    return s.encode("utf-8").decode("latin-1")


def bstr_bytes(s):
    return s.encode("latin-1")


def bytes_bstr(b):
    return b.decode("latin-1")


PLAIN = st.text(alphabet="abcde0123", min_size=0, max_size=4)
HOSTILE_ATOMS = [",", ";", "|", "=", ":", "\t", " ", '"', "'", "\\", "#", "-", "{", "}", "[", "]", "\r", "\n", "\r\n", "  ", "",
                 u8("\ufeff"), "\x00", "\x01", "\x1f", "\x7f", u8("\u0085"), u8("\u2028"), u8("\u00a0"), u8("e\u0301"), u8("\u00e9"), u8("\u4e2d\u6587"),
                 u8("\U0001F600"), ".", "*", "+", "?", "(", ")", "^", "$", "%d", "%s", "%", "0x1F", "1e5", "007", "+1", "-0", "1_000", ".5", "5.",
                 "Inf", "NaN", "true", "{}", "[]", "\\t", "\\n", "\\\\", "\\", "\\.", "a", "b", "ab", "A", "x y", "/", "..", "~", "&", "<", ">", "!", "`"]
INVALID_UTF8 = ["\xff", "\xc3", "\xe2\x82", "\xc0\xaf", "\xed\xa0\x80", "\xf5", "\x80", "a\xffb"]


def hostile(extra=(), exclude=(), invalid_utf8=False, max_atoms=5):
    atoms = [a for a in HOSTILE_ATOMS + list(extra) if not any(x in a for x in exclude)]
    if invalid_utf8:
        atoms = atoms + [a for a in INVALID_UTF8 if not any(x in a for x in exclude)]
    return st.lists(st.sampled_from(atoms), min_size=0, max_size=max_atoms).map("".join)


def text_cell(exclude=(), invalid_utf8=False, nonempty=False):
    base = st.one_of(PLAIN, hostile(exclude=exclude, invalid_utf8=invalid_utf8),
                     st.text(alphabet=st.characters(blacklist_categories=("Cs",), max_codepoint=0x2FFF), max_size=6).map(u8).filter(
                         lambda s: not any(x in s for x in exclude)),
                     spelling.filter(lambda s: not any(x in s for x in exclude)))
    if nonempty:
        base = base.filter(lambda s: s != "")
    return base


# ---------------------------------------------------------------------------------------------
# CSV helpers on bstr

def to_csv(header, rows, delimiter=",", lineterminator="\n", quoting=csv.QUOTE_MINIMAL):
    buf = io.StringIO(newline="")
    w = csv.writer(buf, delimiter=delimiter, lineterminator=lineterminator, quoting=quoting)
    if header is not None:
        w.writerow(header)
    for r in rows:
        w.writerow(r)
    return buf.getvalue()


def parse_csv(text, delimiter=","):
    """RFC-4180 reader (Python csv, strict). A blank line means one empty field (RFC), not []."""
    rd = csv.reader(io.StringIO(text, newline=""), delimiter=delimiter, strict=True)
    out = []
    for r in rd:
        out.append(r if r else [""])
    return out


def tsv_encode(s):
    return s.replace("\\", "\\\\").replace("\t", "\\t").replace("\n", "\\n").replace("\r", "\\r")


def tsv_decode(s):
    out = []
    i = 0
    n = len(s)
    while i < n:
        c = s[i]
        if c == "\\" and i + 1 < n and s[i + 1] in "\\ntr":
            out.append({"\\": "\\", "n": "\n", "t": "\t", "r": "\r"}[s[i + 1]])
            i += 2
        else:
            out.append(c)
            i += 1
    return "".join(out)


def to_tsv(header, rows):
    lines = []
    if header is not None:
        lines.append("\t".join(tsv_encode(h) for h in header))
    for r in rows:
        lines.append("\t".join(tsv_encode(c) for c in r))
    return "\n".join(lines) + "\n"


def parse_tsv(text):
    lines = text.split("\n")
    if lines and lines[-1] == "":
        lines.pop()
    return [[tsv_decode(c) for c in ln.split("\t")] for ln in lines]


def json_records(recs):
    """Records (list of list of (k,v) pairs or dicts, text values) -> JSON text; all values strings."""
    out = []
    for r in recs:
        items = r.items() if isinstance(r, dict) else r
        out.append("{" + ", ".join("%s: %s" % (json.dumps(k, ensure_ascii=False), json.dumps(v, ensure_ascii=False)) for k, v in items) + "}")
    return "[\n" + ",\n".join(out) + "\n]\n"


def parse_json_records(text):
    """Order-preserving parse of Miller's JSON output -> list of list of (k, v); numbers kept as text."""
    if not text.strip():
        return []
    v = json.loads(text, object_pairs_hook=lambda ps: ps, parse_float=lambda s: ("num", s), parse_int=lambda s: ("num", s))
    return v


# ---------------------------------------------------------------------------------------------
# record streams

def field_names(n_min=1, n_max=6):
    pool = ["a", "b", "c", "d", "e", "f", "g", "h", "i", "j", "k", "l", "m", "n", "o", "p", "q", "r", "s", "t"]
    return st.integers(n_min, n_max).flatmap(lambda n: st.permutations(pool[:max(n, 1) + 3]).map(lambda p: list(p[:n])))
