"""C16 - time conversion functions agree with the Gregorian/IANA calendar."""
import datetime
import json
import zoneinfo

from hypothesis import strategies as st

from vlib.core import Sub

LEVEL = "exploration"
RULE = ("Hypothesis: instants (uniform over years 1-9999, dense windows around leap days, year ends, the epoch, 2^31, and +-8 h around every DST/offset "
        "transition 2005-2030 of 9 IANA zones, negative and dyadic fractional seconds) x ~30 time functions evaluated in batched rows; oracle: Python "
        "datetime/zoneinfo (same /usr/share/zoneinfo as Go), round trips strptime(strftime(t,f),f)==t, dhms/hms inverses on all integers, zone-selection "
        "metamorphic relations, verb == function; non-trivial = instant within a day of a leap day/year end/transition/epoch, negative, or fractional")
ASSUMPTIONS = ["Python datetime implements the proleptic Gregorian calendar; zoneinfo and Go read the same tzdata files", "fractions are dyadic so decimal rendering at the requested precision is exact"]

EPOCH = datetime.datetime(1970, 1, 1, tzinfo=datetime.timezone.utc)
LO, HI = -62135596800, 253402300799
ZONES = ["Asia/Kolkata", "America/New_York", "Asia/Kathmandu", "Australia/Lord_Howe", "America/Sao_Paulo", "Europe/London", "Asia/Tokyo", "Europe/Berlin", "America/St_Johns"]
ZONES = [z for z in ZONES if z in zoneinfo.available_timezones()]

_TRANS = None


def transitions():
    """(zone, instant) of every UTC-offset change 2005..2030 (day scan + bisection)."""
    global _TRANS
    if _TRANS is None:
        out = []
        for z in ZONES:
            tz = zoneinfo.ZoneInfo(z)
            t = int(datetime.datetime(2005, 1, 1, tzinfo=datetime.timezone.utc).timestamp())
            end = int(datetime.datetime(2030, 1, 1, tzinfo=datetime.timezone.utc).timestamp())
            off = lambda x: (EPOCH + datetime.timedelta(seconds=x)).astimezone(tz).utcoffset()
            prev = off(t)
            while t < end:
                nxt = t + 86400
                o = off(nxt)
                if o != prev:
                    lo, hi = t, nxt
                    while hi - lo > 1:
                        mid = (lo + hi) // 2
                        if off(mid) == prev:
                            lo = mid
                        else:
                            hi = mid
                    out.append((z, hi))
                    prev = o
                t = nxt
        _TRANS = out
    return _TRANS


def gmt(t):
    return EPOCH + datetime.timedelta(seconds=t)


SPECIAL = [951782400, 951868799, 951868800, 4107542400 - 1, 4107542400, -1, 0, 1, -86400, -86401, LO, HI, 2 ** 31 - 1, 2 ** 31, -2 ** 31, 68169600, 1078012800, 1709164800, 4102444799,
           4102444800, 946684799, 946684800, -2208988800, 11644473600 - 1]
INST = st.one_of(st.integers(LO, HI), st.integers(-10 ** 6, 10 ** 6), st.integers(0, 2 ** 32), st.sampled_from(SPECIAL),
                 st.builds(lambda b, d: max(LO, min(HI, b + d)), st.sampled_from(SPECIAL), st.integers(-3, 3)), st.integers(0, 4102444800), st.integers(0, 4102444800))


def near_transition(draw):
    z, t = draw(st.sampled_from(transitions()))
    return z, t + draw(st.integers(-16, 16)) * 1800 + draw(st.sampled_from([0, 0, 1, -1, 59, 1799]))


def y4(d):
    return "%04d" % d.year


@st.composite
def fmt_rows(draw):
    rows = []
    for _ in range(draw(st.integers(15, 40))):
        if draw(st.integers(0, 3)) == 0:
            z, t = near_transition(draw)
        else:
            z, t = draw(st.sampled_from(ZONES)), draw(INST)
        num, den = draw(st.sampled_from([(0, 1), (0, 1), (1, 2), (1, 8), (3, 8), (7, 8), (1, 1024), (513, 1024)]))
        rows.append({"t": t, "z": z, "num": num, "den": den, "nd": draw(st.sampled_from([3, 6, 9, 4])) if den > 2 else draw(st.sampled_from([1, 3, 6, 9, 2]))})
    return {"rows": rows}


PROG_FMT = ('$a=sec2gmt($t); $b=sec2gmtdate($t); $c=strftime($t,"%Y-%m-%d %H:%M:%S %j %a %b %e %y %I %p"); $d=strftime_local($t,"%Y-%m-%d %H:%M:%S %z",$z); '
            '$e=gmt2sec($a); $f=strptime($a,"%Y-%m-%dT%H:%M:%SZ"); $g=sec2dhms($t); $h=dhms2sec($g); $i=sec2hms($t); $j=hms2sec($i); '
            '$k=strftime($t,"%A %B %u %w %C %H:%M %D %F %T %s"); $l=sec2gmt($tf, $nd); $m=strftime($tf, "%Y-%m-%dT%H:%M:%" . $nd . "SZ"); $n=nsec2gmt($tn); $o=nsec2gmtdate($tn); '
            '$p=sec2localtime($t, 0, $z); $q=sec2localdate($t, $z); $r=strptime_local($p, "%Y-%m-%d %H:%M:%S", $z); $s=localtime2sec($p, $z); $u=gmt2localtime($a, $z); $v=localtime2gmt($p); '
            '$w=strfntime($tn, "%Y-%m-%d %H:%M:%6S"); $x=strptime($m, "%Y-%m-%dT%H:%M:%SZ"); $fs=fsec2hms($tf); $fd=fsec2dhms($tf); $hf=hms2fsec($fs); $df=dhms2fsec($fd); $y=nsec2gmt($tn, 6); $zz=strpntime($a,"%Y-%m-%dT%H:%M:%SZ")')


def frac_text(t, num, den):
    """Exact decimal text of t + num/den (den a power of two)."""
    if num == 0:
        return str(t)
    from fractions import Fraction
    v = Fraction(t) + Fraction(num, den)
    neg = v < 0
    v = abs(v)
    ip = int(v)
    fp = v - ip
    digits = ""
    for _ in range(12):
        fp *= 10
        d = int(fp)
        digits += str(d)
        fp -= d
    return ("-" if neg else "") + "%d.%s" % (ip, digits.rstrip("0") or "0")


def body_fmt(ctx, case):
    rows = case["rows"]
    data = []
    for r in rows:
        t = r["t"]
        tf = frac_text(t, r["num"], r["den"])
        from fractions import Fraction
        tn = int((Fraction(t) + Fraction(r["num"], r["den"])) * 10 ** 9)
        data.append("t=%d,z=%s,tf=%s,nd=%d,tn=%d" % (t, r["z"], tf, r["nd"], tn))
    res = ctx.mlr(["--ojsonl", "put", PROG_FMT], stdin=("\n".join(data) + "\n").encode(), timeout=60)
    if res.rc != 0 or res.panicked:
        ctx.fail(case, "time batch failed rc=%s: %s" % (res.rc, res.err[:400].decode("utf-8", "replace")))
    lines = res.out.decode().splitlines()
    if len(lines) != len(rows):
        ctx.fail(case, "row count %d vs %d" % (len(rows), len(lines)))
    trans = {(z, x) for z, x in transitions()}
    for r, ln in zip(rows, lines):
        try:
            o = json.loads(ln.replace(": (error)", ': "(error)"'))
        except ValueError:
            ctx.fail({"rows": [r]}, "output line is not JSON (an (error) value?): %r" % ln[:300])
            continue
        t, z = r["t"], r["z"]
        d = gmt(t)
        one = {"rows": [r]}
        neart = any(abs(t - x) < 86400 for zz, x in transitions() if zz == z) if abs(t) < 2 ** 31 else False
        nt = t < 0 or r["num"] != 0 or neart or (d.month == 2 and d.day >= 28) or (d.month == 3 and d.day == 1) or (d.month == 12 and d.day == 31) or abs(t) < 86400
        ctx.case(("t", t, z, r["num"], r["den"]), nt, labels=("near-transition" if neart else "far", "frac" if r["num"] else "int", "neg" if t < 0 else "pos"),
                 sample=r if nt and len(ctx.samples) < 3 else None)

        def chk(name, exp, what=None):
            if o.get(name) != exp:
                ctx.fail(one, "%s: mlr gives %r, calendar model gives %r   (t=%d zone=%s frac=%d/%d nd=%d)" % (what or name, o.get(name), exp, t, z, r["num"], r["den"], r["nd"]))
        iso = y4(d) + d.strftime("-%m-%dT%H:%M:%SZ")
        chk("a", iso, "sec2gmt")
        chk("b", y4(d) + d.strftime("-%m-%d"), "sec2gmtdate")
        chk("c", y4(d) + d.strftime("-%m-%d %H:%M:%S %j %a %b ") + ("%2d" % d.day) + d.strftime(" %y %I %p"), "strftime")
        chk("k", d.strftime("%A %B ") + str(d.isoweekday()) + " " + str(d.isoweekday() % 7) + " " + "%02d" % (d.year // 100) + d.strftime(" %H:%M %m/%d/%y ") + y4(d) + d.strftime("-%m-%d %H:%M:%S ") + str(t), "strftime (2)")
        # the parse direction is exact only while seconds*1e9 fits in 62 bits (known finding beyond): years 1678..2115
        in_ns = -2 ** 63 < t * 10 ** 9 < 2 ** 63 - 10 ** 9
        chk("e", t, "gmt2sec(sec2gmt(t))")
        chk("f", t, "strptime(sec2gmt(t))")
        if in_ns:
            chk("zz", t * 10 ** 9, "strpntime")
        else:
            ctx.label("outside-int64-nanoseconds")
        chk("h", t, "dhms2sec(sec2dhms(t)) via %r" % o.get("g"))
        chk("j", t, "hms2sec(sec2hms(t)) via %r" % o.get("i"))
        # fractional seconds
        from fractions import Fraction
        v = Fraction(t) + Fraction(r["num"], r["den"])
        fl = v.numerator // v.denominator
        fd_ = gmt(fl)
        fracdigits = str(int((v - fl) * 10 ** r["nd"])).rjust(r["nd"], "0") if True else ""
        exact = ((v - fl) * 10 ** r["nd"]).denominator == 1
        if exact and abs(t) < 2 ** 40:
            expl = y4(fd_) + fd_.strftime("-%m-%dT%H:%M:%S") + "." + fracdigits + "Z"
            chk("l", expl, "sec2gmt(t + %d/%d, %d)" % (r["num"], r["den"], r["nd"]))
            chk("m", expl, "strftime %%%dS" % r["nd"])
        if in_ns:
            tn = int(v * 10 ** 9)
            chk("n", y4(fd_) + fd_.strftime("-%m-%dT%H:%M:%SZ"), "nsec2gmt")
            chk("o", y4(fd_) + fd_.strftime("-%m-%d"), "nsec2gmtdate")
            us = str(int((v - fl) * 10 ** 6)).rjust(6, "0")
            if ((v - fl) * 10 ** 6).denominator == 1:
                chk("w", y4(fd_) + fd_.strftime("-%m-%d %H:%M:%S") + "." + us, "strfntime %6S")
                chk("y", y4(fd_) + fd_.strftime("-%m-%dT%H:%M:%S") + "." + us + "Z", "nsec2gmt(t, 6)")
        if r["num"] and abs(t) < 10 ** 9:
            for name, inv in (("hf", "hms2fsec(fsec2hms(x))"), ("df", "dhms2fsec(fsec2dhms(x))")):
                gv = o.get(name)
                if not isinstance(gv, (int, float)) or abs(gv - float(v)) > 1e-6:
                    ctx.fail(one, "%s: x=%s came back as %r (via %r)" % (inv, float(v), gv, o.get("fs" if name == "hf" else "fd")))
        # local time
        if 2 <= d.year <= 9998:
            tz = zoneinfo.ZoneInfo(z)
            loc = d.astimezone(tz)
            off = loc.utcoffset().total_seconds()
            if off == int(off) and int(off) % 60 == 0:
                chk("d", y4(loc) + loc.strftime("-%m-%d %H:%M:%S %z"), "strftime_local")
            chk("p", y4(loc) + loc.strftime("-%m-%d %H:%M:%S"), "sec2localtime")
            chk("q", y4(loc) + loc.strftime("-%m-%d"), "sec2localdate")
            chk("u", y4(loc) + loc.strftime("-%m-%d %H:%M:%S"), "gmt2localtime")
            # parsing a local wall-clock time back: only where it is unambiguous (not in a DST overlap)
            naive = loc.replace(tzinfo=None)
            cands = set()
            for fold in (0, 1):
                c = naive.replace(tzinfo=tz, fold=fold)
                back = c.astimezone(datetime.timezone.utc)
                if back.astimezone(tz).replace(tzinfo=None) == naive:
                    cands.add(int((back - EPOCH).total_seconds()))
            if len(cands) == 1 and 1971 <= d.year <= 2037:
                chk("r", t, "strptime_local(sec2localtime(t)) [%s]" % o.get("p"))
                chk("s", t, "localtime2sec(sec2localtime(t)) [%s]" % o.get("p"))
            elif len(cands) > 1:
                ctx.label("dst-overlap-unasserted")


def sub_fmt(ctx):
    transitions()
    ctx.hyp(fmt_rows(), lambda c: body_fmt(ctx, c), ctx.n(750, 6000))


# ---- relative times: exhaustive-ish integers and inverses

def sub_dhms(ctx):
    vals = list(range(-4000, 4001, 7)) + [0, 1, -1, 59, 60, 61, 3599, 3600, 3601, 86399, 86400, 86401, -59, -60, -61, -3599, -3600, -3601, -86399, -86400, -86401, 500000, -500000, 10 ** 9, -10 ** 9, 2 ** 31, 100 * 86400 + 3661]
    vals = sorted(set(vals))
    text = "".join("t=%d\n" % v for v in vals)
    res = ctx.mlr(["--ojsonl", "put", '$a=sec2dhms($t); $b=dhms2sec($a); $c=sec2hms($t); $d=hms2sec($c); $e=fsec2dhms($t + 0.25); $f=dhms2fsec($e); $g=fsec2hms($t + 0.25); $h=hms2fsec($g)'], stdin=text.encode())
    if res.rc != 0:
        ctx.fail({"t": None}, "dhms batch failed: %s" % res.err[:200])
        return
    for v, ln in zip(vals, res.out.decode().splitlines()):
        o = json.loads(ln)
        ctx.case(("dhms", v), v < 0 or abs(v) >= 86400)

        def model_dhms(s):
            sign = "-" if s < 0 else ""
            a = abs(s)
            dd, hh, mm, ss = a // 86400, a % 86400 // 3600, a % 3600 // 60, a % 60
            if dd:
                return "%s%dd%02dh%02dm%02ds" % (sign, dd, hh, mm, ss)
            if hh:
                return "%s%dh%02dm%02ds" % (sign, hh, mm, ss)
            if mm:
                return "%s%dm%02ds" % (sign, mm, ss)
            return "%s%ds" % (sign, ss)

        def model_hms(s):
            sign = "-" if s < 0 else ""
            a = abs(s)
            return "%s%02d:%02d:%02d" % (sign, a // 3600, a % 3600 // 60, a % 60)
        checks = [("b", v, "dhms2sec(sec2dhms(t)) via %r" % o.get("a")), ("d", v, "hms2sec(sec2hms(t)) via %r" % o.get("c")), ("a", model_dhms(v), "sec2dhms"), ("c", model_hms(v), "sec2hms")]
        for name, exp, what in checks:
            if o.get(name) != exp:
                if not ctx.guard(ctx.fail, {"t": v}, "%s: t=%d gives %r, expected %r" % (what, v, o.get(name), exp)):
                    return
        for name, what in (("f", "dhms2fsec(fsec2dhms(t+0.25)) via %r" % o.get("e")), ("h", "hms2fsec(fsec2hms(t+0.25)) via %r" % o.get("g"))):
            if not isinstance(o.get(name), (int, float)) or abs(o[name] - (v + 0.25)) > 1e-6:
                if not ctx.guard(ctx.fail, {"t": v}, "%s: t=%s gives %r" % (what, v + 0.25, o.get(name))):
                    return


# ---- zone selection (metamorphic)

@st.composite
def zone_case(draw):
    return {"t": draw(st.integers(0, 2 ** 31)), "z1": draw(st.sampled_from(ZONES)), "z2": draw(st.sampled_from(ZONES)), "how": draw(st.sampled_from(["--tz", "TZ", "ENV"]))}


def body_zone(ctx, case):
    t, z1, z2, how = case["t"], case["z1"], case["z2"], case["how"]
    prog = '$g=sec2gmt($t); $gd=sec2gmtdate($t); $s=strftime($t,"%Y-%m-%d %H:%M:%S"); $l=sec2localtime($t); $lz=sec2localtime($t, 0, "ZZ"); $ll=strftime_local($t, "%H:%M", "ZZ")'.replace("ZZ", z2)
    pre = ""
    args, tz = [], None
    if how == "--tz":
        args = ["--tz", z1]
    elif how == "TZ":
        tz = z1
    else:
        pre = 'ENV["TZ"] = "%s"; ' % z1
    res = ctx.mlr(args + ["--ojsonl", "put", pre + prog], stdin=("t=%d\n" % t).encode(), tz=tz)
    base = ctx.mlr(["--ojsonl", "put", prog], stdin=("t=%d\n" % t).encode(), tz="UTC")
    ctx.case(case, z1 != z2, sample=case if len(ctx.samples) < 3 else None)
    if res.rc != 0 or base.rc != 0:
        ctx.fail(case, "zone program failed: %s" % res.err[:200])
    a, b = json.loads(res.out.decode().replace(": (error)", ': "(error)"')), json.loads(base.out.decode().replace(": (error)", ': "(error)"'))
    for k in ("g", "gd", "s"):
        if a[k] != b[k]:
            ctx.fail(case, "GMT function output %s changed with the ambient zone (%s=%s): %r vs %r" % (k, how, z1, a[k], b[k]))
    for k in ("lz", "ll"):
        if a[k] != b[k]:
            ctx.fail(case, "*_local function with an explicit zone argument depends on the ambient zone: %r vs %r" % (a[k], b[k]))
    loc = gmt(t).astimezone(zoneinfo.ZoneInfo(z1))
    if a["l"] != y4(loc) + loc.strftime("-%m-%d %H:%M:%S"):
        ctx.fail(case, "sec2localtime(t) under %s=%s gives %r, expected %r" % (how, z1, a["l"], loc.strftime("%Y-%m-%d %H:%M:%S")))


def sub_zone(ctx):
    ctx.hyp(zone_case(), lambda c: body_zone(ctx, c), ctx.n(600, 3000))


# ---- verbs == functions

def sub_verbs(ctx):
    vals = ["0", "1500000000", "-1", "1.5", "17e8", "0x10", "abc", "", "1500000000.123456", "-86401", "253402300799"]
    text = "".join("t=%s,u=%s\n" % (v, v) for v in vals)
    for flags, fn in ((["sec2gmt", "t"], "sec2gmt($t)"), (["sec2gmt", "-3", "t"], "sec2gmt($t, 3)"), (["sec2gmt", "-9", "t"], "sec2gmt($t, 9)"), (["sec2gmtdate", "t"], "sec2gmtdate($t)"),
                      (["sec2gmt", "--millis2gmt", "t"] if False else ["sec2gmt", "--millis", "t"], "sec2gmt($t / 1000)"), (["sec2gmt", "t,u"], "BOTH")):
        a = ctx.mlr(["--ojsonl"] + flags, stdin=text.encode())
        if fn == "BOTH":
            b = ctx.mlr(["--ojsonl", "put", "$t = sec2gmt($t); $u = sec2gmt($u)"], stdin=text.encode())
        else:
            b = ctx.mlr(["--ojsonl", "put", "$t = " + fn], stdin=text.encode())
        for v, la, lb in zip(vals, a.out.decode().splitlines(), b.out.decode().splitlines()):
            numeric = v not in ("abc", "")
            ctx.case(("verb", tuple(flags), v), True)
            ja = json.loads(la)
            if not numeric:
                if str(ja["t"]) != v:
                    if not ctx.guard(ctx.fail, {"verb": flags, "v": v}, "%r must leave the non-numeric value %r unchanged, got %r" % (flags, v, ja["t"])):
                        return
            if "--millis" in flags:
                continue
            if la != lb:
                if not ctx.guard(ctx.fail, {"verb": flags, "v": v}, "verb %r differs from function %s on %r: %r vs %r" % (flags, fn, v, la, lb)):
                    return


def sub_as_is(ctx):
    """Every time function whose help text says "Leaves non-numbers as-is", in each of its arities, on non-numeric first arguments."""
    import re
    helptext = ctx.mlr(["help", "usage-functions-by-class"]).out.decode()
    funcs = re.findall(r"(?m)^(\S+)  \(class=time #args=([0-9,]+)\) [^\n]*Leaves non-numbers as-is", helptext)
    if len(funcs) < 6:
        raise RuntimeError("expected at least 6 time functions documented to leave non-numbers as-is, found %r" % (funcs,))
    vals = ["abc", "", "1.2.3", "0xZZ", "2023-01-01", "-", "1 2", "t\u00e9"]
    exprs = []
    for name, ar in funcs:
        for n in [int(x) for x in ar.split(",")]:
            local = "local" in name
            date = "date" in name
            for v in vals:
                if n == 1:
                    args = ["$v"]
                elif n == 2:
                    args = ["$v", '"Asia/Tokyo"' if (local and date) or (local and False) else ("3" if not date else '"Asia/Tokyo"')]
                    if local and not date:
                        # sec2localtime(t, zone) and sec2localtime(t, n, zone) exist; the 2-argument form takes the zone
                        args = ["$v", '"Asia/Tokyo"']
                else:
                    args = ["$v", "3", '"Asia/Tokyo"']
                exprs.append((name, n, v, "%s(%s)" % (name, ", ".join(args))))
    recs = "".join(json.dumps({"v": v}) + "\n" for _, _, v, _ in exprs)
    # one record per expression: evaluate expression i on record i
    prog = "".join('NR == %d {$o = %s}\n' % (i + 1, e) for i, (_, _, _, e) in enumerate(exprs))
    import os
    from vlib import run as vrun
    d = vrun.newdir("a")
    path = os.path.join(d, "p.mlr")
    with open(path, "w") as f:
        f.write(prog)
    res = ctx.mlr(["--ijsonl", "--ojsonl", "put", "-f", path], stdin=recs.encode(), tz="America/Sao_Paulo")
    lines = res.out.decode().splitlines()
    if res.rc != 0 or len(lines) != len(exprs):
        ctx.fail({"as_is": "batch"}, "batch failed rc=%s: %s" % (res.rc, res.err[:300]))
    for (name, n, v, e), ln in zip(exprs, lines):
        ctx.case(("as-is", name, n, v), True, labels=("as-is:%s/%d" % (name, n),), sample={"expression": e, "v": v} if len(ctx.samples) < 3 else None)
        try:
            o = json.loads(ln.replace("(error)", '"(error)"')).get("o", "<absent>")
        except ValueError:
            o = ln
        if o != v:
            if not ctx.guard(ctx.fail, {"as_is": e, "v": v}, "%s with $v = %r gives %r; its help text says \"Leaves non-numbers as-is\"" % (e, v, o)):
                if len(ctx.violations) >= 5:
                    return


SUBCHECKS = [
    Sub("format_and_parse_rows", sub_fmt, body_fmt, shards={"quick": 8, "thorough": 16}, cost=3, rule="~33 time functions per generated instant vs datetime/zoneinfo; round trips"),
    Sub("relative_times", sub_dhms, None, shards={"quick": 1, "thorough": 1}, exhaustive=True, rule="sec2dhms/sec2hms layouts and all four inverse pairs on ~1200 integers incl. negatives and +0.25 floats"),
    Sub("zone_selection", sub_zone, body_zone, shards={"quick": 3, "thorough": 4}, rule="--tz / TZ / ENV[TZ] select the zone of *_local functions and leave GMT functions and explicit-zone calls unchanged"),
    Sub("verbs_equal_functions", sub_verbs, None, shards={"quick": 1, "thorough": 1}, exhaustive=True, rule="sec2gmt [-1..-9] / sec2gmtdate verbs == functions per field, on numeric and non-numeric values; non-numeric values unchanged"),
    Sub("non_numbers_left_as_is", sub_as_is, None, shards={"quick": 1, "thorough": 1}, exhaustive=True,
        rule="every time function whose help text says 'Leaves non-numbers as-is' (list read from the binary), in each arity, returns a non-numeric first argument unchanged"),
]

KNOWN = {}
