"""C08 - absent and empty values obey the documented null-data algebra."""
import collections
import json

from hypothesis import strategies as st

from vlib.core import Sub

LEVEL = "exploration"
RULE = ("exhaustive: every binary operator/function x ordered pair of 11 operand kinds (int, float, boolean, empty, string, array, map, function, error, "
        "JSON-null, absent; 1-2 representative values each), variadic min/max with 0-3 arguments, unary math-library functions of absent: rule-based "
        "oracle from reference-main-null-data.md (absent identity, empty-with-number, error propagation) + model-free commutativity of result kind + "
        "is_*/asserting_*/typeof consistency; Hypothesis: absent right-hand sides assigned to every lvalue kind create no key; accumulation idioms over "
        "heterogeneous streams equal a Python fold; `t op= v` == `t = t op v`; non-trivial = a cell with at least one non-number kind / an absent RHS")
ASSUMPTIONS = ["rule table transcribed from reference-main-null-data.md and the statement; cells the documentation is silent on get only the crash and commutativity checks"]

KINDS = collections.OrderedDict([
    ("int", ["3", "-2"]), ("float", ["2.5"]), ("bool", ["true"]), ("empty", ['""']), ("string", ['"abc"']), ("array", ["[1,2]"]), ("map", ['{"k":1}']),
    ("func", ["func(a) {return a}"]), ("error", ['(1 + "q")']), ("null", ["$n"]), ("absent", ["$nosuch", "@nosuch"]),
])
ARITH = ["+", "-", "*", "/", "//", "%", "**", ".+", ".-", ".*", "./", "&", "|", "^", "<<", ">>", ">>>"]
OPS = ARITH + [".", "<", "<=", "==", "!=", ">", ">=", "<=>", "&&", "||", "^^", "??", "???"]
FUNCS2 = ["min", "max", "roundm", "atan2", "pow"]
COMM = ["+", "*", ".+", ".*", "&", "|", "^", "==", "!=", "^^", "min", "max"]
ABSENT_ID = ["+", "-", "*", "/", "//", "%", "**", ".+", ".-", ".*", "./", "&", "|", "^", "<<", ">>", ">>>", "min", "max"]
MATH1 = ["abs", "ceil", "floor", "round", "sgn", "exp", "log", "sqrt", "sin", "cos", "tan", "asin", "acos", "atan", "sinh", "cosh", "tanh", "expm1", "log10", "log1p", "cbrt", "bitcount", "msub5"]


def cell_stmt(i, e):
    return ('unset r; r = %s; print "%d\\t" . typeof(r) . "\\t" . (is_error(r) ? "ERR" : (is_absent(r) ? "ABS" : (is_map(r)||is_array(r)||typeof(r)=="funct" ? "COLL" : r)));' % (e, i))


def run_cells(ctx, exprs):
    """Evaluates expressions in one invocation; returns list of (typeof, rendered) or None."""
    prog = "\n".join(cell_stmt(i, e) for i, e in enumerate(exprs))
    d = __import__("vlib.run", fromlist=["x"]).newdir("n")
    path = d + "/prog.mlr"
    with open(path, "w") as f:
        f.write(prog)
    res = ctx.mlr(["--ijson", "--ojson", "put", "-q", "-f", path], stdin=b'{"x":1,"n":null}', timeout=120)
    out = [None] * len(exprs)
    for ln in res.out.decode("utf-8", "replace").split("\n"):
        parts = ln.split("\t")
        if len(parts) == 3 and parts[0].isdigit():
            out[int(parts[0])] = (parts[1], parts[2])
    return out, res


def sub_matrix(ctx):
    cells = []
    for op in OPS + FUNCS2:
        for ka, va in KINDS.items():
            for kb, vb in KINDS.items():
                for a in va[:1]:
                    for b in vb[:1]:
                        e = "%s(%s, %s)" % (op, a, b) if op in FUNCS2 else "(%s) %s (%s)" % (a, op, b)
                        cells.append((op, ka, kb, e))
    res, r = run_cells(ctx, [c[3] for c in cells])
    if r.panicked or r.rc not in (0,):
        # find the crashing cell
        done = sum(1 for x in res if x is not None)
        bad = cells[done] if done < len(cells) else None
        ctx.fail({"expr": bad[3] if bad else None}, "kind matrix program died at cell %r: rc=%s %s" % (bad, r.rc, r.err[:400].decode("utf-8", "replace")))
        return
    tab = {}
    for (op, ka, kb, e), x in zip(cells, res):
        tab[(op, ka, kb)] = x
        ctx.case(("cell", op, ka, kb), ka not in ("int", "float") or kb not in ("int", "float"),
                 sample={"expr": e, "result": x} if (ka == "absent" and len(ctx.samples) < 3) else None)

    def fail(op, ka, kb, what):
        e = [c[3] for c in cells if c[:3] == (op, ka, kb)][0]
        return ctx.guard(ctx.fail, {"expr": e, "op": op, "kinds": [ka, kb]}, "%s  [%s]: mlr gives %r; %s" % (e, "%s %s %s" % (ka, op, kb), tab[(op, ka, kb)], what))
    # commutativity of result kind
    for op in COMM:
        for ka in KINDS:
            for kb in KINDS:
                x, y = tab[(op, ka, kb)], tab[(op, kb, ka)]
                if x and y and x[0] != y[0]:
                    fail(op, ka, kb, "but (%s %s %s) gives %r: commutative operators must give the same result kind both ways" % (kb, op, ka, y))
    # absent is the identity
    for op in ABSENT_ID:
        for k in (("int",) if op in ("&", "|", "^", "<<", ">>", ">>>") else ("int", "float")):
            v = KINDS[k][0]
            for order in (("absent", k), (k, "absent")):
                x = tab[(op,) + order]
                okv = [v]
                if op in ("-", ".-") and order[0] == "absent":
                    okv.append(v[1:] if v.startswith("-") else "-" + v)  # docs: "returns the other operand" and also "acts like zero for subtraction"
                    ctx.label("underdetermined")
                if x is None or x[1] not in okv or x[0] != k:
                    fail(op, order[0], order[1], "absent op x and x op absent must equal x (%s, %s)" % (k, v))
        z = tab[(op, "absent", "absent")]
        if z is None or z[0] != "absent":
            fail(op, "absent", "absent", "absent op absent must be absent")
    # empty with number yields the number for + - * min max; empty op empty = empty; absent op empty = absent
    for op in ("+", "-", "*", "min", "max"):
        for k in ("int", "float"):
            for order in (("empty", k), (k, "empty")):
                x = tab[(op,) + order]
                v = KINDS[k][0]
                okv = [v]
                if op == "-" and order[0] == "empty":
                    okv = [v, v[1:] if v.startswith("-") else "-" + v]   # documented example: x=,y=3 gives $x - $y = -3
                if op == "max":
                    # statement: the number; reference-main-null-data.md example prints max("",3) as empty: accept either
                    if x is not None and x[0] == "empty":
                        ctx.label("underdetermined")
                        continue
                if x is None or x[0] != k or x[1] not in okv:
                    fail(op, order[0], order[1], "empty with a number must yield the number")
    for op in ("+", "-", "*"):
        x = tab[(op, "empty", "empty")]
        if x is None or x[0] != "empty":
            fail(op, "empty", "empty", "empty op empty must be empty")
        for order in (("absent", "empty"), ("empty", "absent")):
            x = tab[(op,) + order]
            if x is None or x[0] != "absent":
                fail(op, order[0], order[1], "absent op empty is absent (reference-main-null-data.md rule table)")
    # an error operand combined with any scalar yields an error
    for op in ARITH + [".", "min", "max"]:
        for k in ("int", "float", "bool", "empty", "string"):
            for order in (("error", k), (k, "error")):
                x = tab[(op,) + order]
                if x is None or x[0] != "error":
                    fail(op, order[0], order[1], "an error operand combined with a scalar must yield an error")


def sub_variadic(ctx):
    exprs = []
    meta = []
    vals = [(k, v[0]) for k, v in KINDS.items() if k != "func"]
    for fn in ("min", "max"):
        exprs.append("%s()" % fn)
        meta.append((fn, ()))
        for ka, a in vals:
            exprs.append("%s(%s)" % (fn, a))
            meta.append((fn, (ka,)))
            for kb, b in vals:
                exprs.append("%s(%s, %s)" % (fn, a, b))
                meta.append((fn, (ka, kb)))
                for kc, c in vals:
                    if kc in ("int", "null", "absent", "empty", "string"):
                        exprs.append("%s(%s, %s, %s)" % (fn, a, b, c))
                        meta.append((fn, (ka, kb, kc)))
    res, r = run_cells(ctx, exprs)
    if r.panicked or r.rc != 0:
        ctx.fail({"expr": "variadic"}, "variadic min/max program died: %s" % r.err[:300])
        return
    tab = dict(zip(meta, res))
    for (fn, ks), x in tab.items():
        ctx.case(("var", fn, ks), any(k not in ("int", "float") for k in ks))
        if len(ks) >= 2:
            # result kind must not depend on argument order (commutativity/associativity of kind)
            import itertools
            for perm in itertools.permutations(ks):
                y = tab.get((fn, perm))
                if y is not None and x is not None and y[0] != x[0]:
                    if not ctx.guard(ctx.fail, {"expr": "%s%r" % (fn, ks)}, "%s over kinds %r gives %r but over %r gives %r: result kind depends on argument order" % (fn, ks, x, perm, y)):
                        return
        if len(ks) == 2 and ks[0] == ks[1] == "null" and x is not None and tab.get((fn, ("null",))) is not None:
            if tab[(fn, ("null",))][0] != x[0]:
                if not ctx.guard(ctx.fail, {"expr": "%s(null)" % fn}, "%s(null) gives %r but %s(null,null) gives %r" % (fn, tab[(fn, ("null",))], fn, x)):
                    return
        # absent always loses
        if "absent" in ks and len(ks) >= 2:
            rest = tuple(k for k in ks if k != "absent")
            if rest:
                y = tab.get((fn, rest))
                if y is not None and x is not None and y != x:
                    if not ctx.guard(ctx.fail, {"expr": "%s%r" % (fn, ks)}, "%s%r = %r but without the absent argument %r: absent must be the identity" % (fn, ks, x, y)):
                        return
    # min and max agree on kinds (the documentation treats them symmetrically: "null loses")
    for (fn, ks), x in tab.items():
        if fn == "min" and len(ks) == 1:
            y = tab.get(("max", ks))
            if x is not None and y is not None and x[0] != y[0]:
                if not ctx.guard(ctx.fail, {"expr": "min/max%r" % (ks,)}, "min%r is %r but max%r is %r" % (ks, x, ks, y)):
                    return


def sub_mathlib_absent(ctx):
    exprs = []
    for fn in MATH1:
        if fn == "msub5":
            continue
        exprs.append("%s($nosuch)" % fn)
        exprs.append("%s(@nosuch)" % fn)
    res, r = run_cells(ctx, exprs)
    if r.rc != 0 or r.panicked:
        ctx.fail({"expr": "mathlib"}, "math-library program died: %s" % r.err[:300])
        return
    for e, x in zip(exprs, res):
        ctx.case(("math", e), True)
        if x is None or x[0] != "absent":
            if not ctx.guard(ctx.fail, {"expr": e}, "%s must be absent, got %r" % (e, x)):
                return


def sub_predicates(ctx):
    vals = [(k, v) for k, vs in KINDS.items() for v in vs]
    preds = {"is_absent": lambda k: k == "absent", "is_present": lambda k: k != "absent", "is_empty": lambda k: k == "empty", "is_not_empty": lambda k: k not in ("empty", "absent"),
             "is_null": lambda k: k in ("empty", "absent", "null"), "is_not_null": lambda k: k not in ("empty", "absent", "null"), "is_string": lambda k: k in ("string", "empty"),
             "is_int": lambda k: k == "int", "is_float": lambda k: k == "float", "is_numeric": lambda k: k in ("int", "float"), "is_boolean": lambda k: k == "bool", "is_map": lambda k: k == "map",
             "is_array": lambda k: k == "array", "is_not_map": lambda k: k != "map", "is_not_array": lambda k: k != "array", "is_error": lambda k: k == "error"}
    tnames = {"int": "int", "float": "float", "bool": "boolean" if False else "boolean", "empty": "empty", "string": "string", "array": "array", "map": "map", "func": "funct", "error": "error", "null": "empty", "absent": "absent"}
    exprs = []
    meta = []
    for k, v in vals:
        exprs.append(v)
        meta.append(("typeof", k, v))
        for p in preds:
            exprs.append("%s(%s)" % (p, v))
            meta.append((p, k, v))
    res, r = run_cells(ctx, exprs)
    if r.rc != 0 or r.panicked:
        ctx.fail({"expr": "predicates"}, "predicate program died: %s" % r.err[:300])
        return
    for (p, k, v), x in zip(meta, res):
        ctx.case(("pred", p, v), True)
        if p == "typeof":
            if x is None or (x[0] != tnames[k] and not (k == "bool" and x[0] in ("boolean", "bool")) and not (k == "null" and x[0] in ("empty", "null"))):
                if not ctx.guard(ctx.fail, {"expr": "typeof(%s)" % v}, "typeof(%s) = %r, expected %s" % (v, x, tnames[k])):
                    return
            continue
        if k == "func":
            continue
        want = "true" if preds[p](k) else "false"
        if x is None or x[1] != want:
            if not ctx.guard(ctx.fail, {"expr": "%s(%s)" % (p, v)}, "%s(%s) = %r, expected %s (value kind %s)" % (p, v, x, want, k)):
                return
    # asserting_X aborts iff is_X is false
    for p in ("absent", "present", "empty", "not_empty", "null", "not_null", "string", "int", "numeric", "map", "array"):
        for k, v in vals:
            if k in ("func", "error"):
                continue
            rr = ctx.mlr(["--ijson", "--ojson", "put", "-q", "y = asserting_%s(%s)" % (p, v)], stdin=b'{"x":1,"n":null}')
            should_pass = preds["is_" + p](k)
            ctx.case(("assert", p, v), True)
            if (rr.rc == 0) != should_pass or rr.panicked:
                if not ctx.guard(ctx.fail, {"expr": "asserting_%s(%s)" % (p, v)}, "asserting_%s(%s): exit %s, but is_%s is %s" % (p, v, rr.rc, p, should_pass)):
                    return


# ---- assignments with an absent right-hand side

ABSENT_RHS = ["$nosuch", "@nosuch", 'm["nokey"]', "f()", "$*[\"nosuch\"]", "@z[1][2]", "asserting_absent($nosuch)", "$nosuch . @nosuch", "$nosuch + @nosuch", "abs($nosuch)", "max($nosuch, @nosuch)"]
LVALUES = ["$new", "$x", '$*["new"]', "@new", "@o", '@idx["k1"]["k2"]', "loc", 'locm["k"]', "$[[1]]", "$[[[1]]]", 'mm["a"]["b"]', "@o2[1]"]


@st.composite
def assign_case(draw):
    return {"stmts": draw(st.lists(st.tuples(st.sampled_from(LVALUES), st.sampled_from(ABSENT_RHS), st.sampled_from(["=", "=", "+=", "*=", "-=", "??="])), min_size=1, max_size=5))}


def body_assign(ctx, case):
    stmts = case["stmts"]
    pre = 'func f() { if (false) {return 1} } m = {"a": 1}; loc = 5; locm = {"q": 1}; mm = {"a": {"c": 1}}; @o = 7; @o2 = {"9": 9};'
    body = "".join("%s %s %s;" % (lv, op, rhs) for lv, rhs, op in stmts if not (lv.startswith("$[[") and op != "=") and not (lv.startswith("ENV") and op != "="))
    post = ('print json_stringify({"rec": $*, "oos": @*, "loc": loc, "locm": locm, "mm": mm, "m": m});')
    res = ctx.mlr(["--ijson", "--ojson", "put", "-q", pre + body + post], stdin=b'{"x":1,"y":"s"}')
    ctx.case(case, True, sample=case)
    if res.rc != 0 or res.panicked:
        ctx.fail(case, "program failed: rc=%s %s\n  %s" % (res.rc, res.err[:300].decode("utf-8", "replace"), body))
    got = json.loads(res.out.decode())
    exp = {"rec": {"x": 1, "y": "s"}, "oos": {"o": 7, "o2": {"9": 9}}, "loc": 5, "locm": {"q": 1}, "mm": {"a": {"c": 1}}, "m": {"a": 1}}
    if got != exp:
        ctx.fail(case, "an assignment with an absent right-hand side changed state:\n  program %s\n  expected %s\n  got      %s" % (body, json.dumps(exp), json.dumps(got)))


# ---- accumulation idioms

@st.composite
def accum_case(draw):
    n = draw(st.integers(0, 10))
    rows = []
    for _ in range(n):
        r = {}
        if draw(st.integers(0, 5)) > 0:
            r["a"] = draw(st.sampled_from(["p", "q", "r"]))
        k = draw(st.integers(0, 5))
        if k >= 2:
            r["x"] = draw(st.integers(-9, 20))
        elif k == 1:
            r["x"] = ""
        if draw(st.booleans()):
            r["s"] = draw(st.sampled_from(["u", "v", ""]))
        rows.append(r)
    return {"rows": rows, "fmt": draw(st.sampled_from(["json", "csv"]))}


def body_accum(ctx, case):
    rows = case["rows"]
    if case["fmt"] == "csv":
        keys = ["a", "x", "s"]
        rows = [{k: r.get(k, "" if k != "a" else "p") for k in keys} for r in rows]
        text = ",".join(keys) + "\n" + "".join(",".join(str(r[k]) for k in keys) + "\n" for r in rows)
        io = ["--icsv", "--ojson"]
    else:
        text = json.dumps(rows)
        io = ["--json"]
    prog = ('@sum[$a] += $x; @cnt[$a] += 1; @mn = min(@mn, $x); @mx[$a] = max(@mx[$a], $x); @cat[$a] .= $s; @sum2[$a] = @sum2[$a] + $x; @tot += $x;'
            'end{emit1 {"sum": @sum, "cnt": @cnt, "mn": @mn, "mx": @mx, "cat": @cat, "sum2": @sum2, "tot": @tot}}')
    res = ctx.mlr(io + ["put", "-q", prog], stdin=text.encode())
    ctx.case(case, any("x" not in r or r.get("x") == "" for r in rows) and len(rows) >= 2, sample={"rows": rows[:3], "fmt": case["fmt"]})
    if res.rc != 0 or res.panicked:
        ctx.fail(case, "accumulation program failed: %s" % res.err[:300])
    got = json.loads(res.out.decode())
    got = got[0] if got else {}
    sums, cnt, mx, cat = collections.OrderedDict(), collections.OrderedDict(), collections.OrderedDict(), collections.OrderedDict()
    mn = None
    tot = None
    for r in rows:
        a = r.get("a")
        x = r.get("x")
        has_a = a is not None
        if case["fmt"] == "csv" and a == "":
            pass  # empty key is a legitimate (empty-string) map key
        if has_a:
            cnt[a] = cnt.get(a, 0) + 1
        if isinstance(x, int):
            mn = x if mn is None else min(mn, x)
            tot = x if tot is None else tot + x
            if has_a:
                sums[a] = sums.get(a, 0) + x
                mx[a] = x if a not in mx else max(mx[a], x)
        if has_a and r.get("s") not in (None,):
            if a in cat and cat[a] is None:
                pass
            elif r["s"] != "" or a in cat:
                cat[a] = cat.get(a, "") + r["s"]
            elif case["fmt"] == "json" or True:
                # absent . empty = empty: the dot operator's treatment of an empty right-hand side onto an unset target is not in the statement; skip this key
                cat[a] = None
    exp = {"sum": dict(sums), "cnt": dict(cnt), "sum2": dict(sums)}
    if not any(r.get("x") == "" for r in rows):
        exp["mx"] = dict(mx)   # max with an empty operand is underdetermined (statement vs documented example)
    for k, ev in exp.items():
        gv = got.get(k, {})
        if gv == "" and not ev:
            gv = {}
        if gv != {str(kk) if kk != "" else "": vv for kk, vv in ev.items()} and gv != ev:
            ctx.fail(case, "accumulator @%s: expected %r got %r (records lacking the field or with an empty value must be ignored and create no key)" % (k, ev, gv))
    if mn is not None and got.get("mn") != mn:
        ctx.fail(case, "@mn = min(@mn,$x): expected %r got %r" % (mn, got.get("mn")))
    if tot is not None and got.get("tot") != tot:
        ctx.fail(case, "@tot += $x: expected %r got %r" % (tot, got.get("tot")))
    gcat = got.get("cat", {}) or {}
    for a, ev in cat.items():
        if ev is not None and gcat.get(a) != ev:
            ctx.fail(case, "@cat[$a] .= $s: key %r expected %r got %r" % (a, ev, gcat.get(a)))


@st.composite
def opassign_case(draw):
    return {"op": draw(st.sampled_from(["+", "-", "*", "/", "//", "**", "&", "|", "^", ".", "<<", ">>", ">>>", "&&", "||", "^^", "??", "???", "%"])),
            "init": draw(st.sampled_from([None, "3", "2.5", '""', '"s"', "{}"])), "rhs": draw(st.sampled_from(["4", "1.5", '""', '"t"', "$nosuch", "$n", "true", "(-3)"]))}


def body_opassign(ctx, case):
    op, init, rhs = case["op"], case["init"], case["rhs"]
    a = ("t = %s;" % init if init else "") + " t %s= %s; " % (op, rhs)
    if op in ("min", "max"):
        b = ("u = %s;" % init if init else "") + " u = %s(u, %s); " % (op, rhs)
    else:
        b = ("u = %s;" % init if init else "") + " u = u %s %s; " % (op, rhs)
    prog = a + b + 'print typeof(t) . "\\t" . typeof(u) . "\\t" . (is_absent(t) || is_error(t) || is_map(t) ? "-" : t) . "\\t" . (is_absent(u) || is_error(u) || is_map(u) ? "-" : u);'
    res = ctx.mlr(["--ijson", "--ojson", "put", "-q", prog], stdin=b'{"x":1,"n":null}')
    ctx.case(case, init is None or rhs in ('""', "$nosuch", "$n"), sample=case)
    if res.rc != 0:
        ctx.fail(case, "program failed: %s\n %s" % (res.err[:300], prog))
    parts = res.out.decode().rstrip("\n").split("\t")
    if len(parts) != 4 or parts[0] != parts[1] or parts[2] != parts[3]:
        ctx.fail(case, "`t %s= %s` differs from `t = t %s %s` (initial %s): %r" % (op, rhs, op, rhs, init, parts))


def replay_expr(ctx, case):
    if "expr" not in case or not case["expr"]:
        return
    res, r = run_cells(ctx, [case["expr"]])
    # replay re-evaluates only the crash oracle; rule checks need the whole matrix
    if r.panicked:
        ctx.fail(case, "crash: %s" % r.err[:300])


def sub_assign(ctx):
    ctx.hyp(assign_case(), lambda c: body_assign(ctx, c), ctx.n(900, 6000))


def sub_accum(ctx):
    ctx.hyp(accum_case(), lambda c: body_accum(ctx, c), ctx.n(1200, 8000))


def sub_opassign(ctx):
    ctx.hyp(opassign_case(), lambda c: body_opassign(ctx, c), ctx.n(900, 3000))


SUBCHECKS = [
    Sub("kind_matrix", sub_matrix, replay_expr, shards={"quick": 1, "thorough": 1}, exhaustive=True, cost=2, rule="35 binary operators/functions x 11 x 11 operand kinds: commutativity of kind, absent identity, empty-with-number, error propagation"),
    Sub("variadic_min_max", sub_variadic, replay_expr, shards={"quick": 1, "thorough": 1}, exhaustive=True, rule="min/max with 0-3 arguments over 10 kinds: kind independent of argument order, absent is the identity, min/max symmetric"),
    Sub("mathlib_absent", sub_mathlib_absent, replay_expr, shards={"quick": 1, "thorough": 1}, exhaustive=True, rule="math-library functions of an absent argument return absent"),
    Sub("predicates", sub_predicates, replay_expr, shards={"quick": 1, "thorough": 1}, exhaustive=True, cost=2, rule="is_* / typeof / asserting_* agree on every representative value"),
    Sub("absent_assignment", sub_assign, body_assign, shards={"quick": 3, "thorough": 6}, rule="absent RHS (11 forms) assigned with = += .= min= ??= to 13 lvalue kinds creates/changes nothing"),
    Sub("accumulation", sub_accum, body_accum, shards={"quick": 3, "thorough": 6}, rule="@sum[$a] += $x, @cnt, min/max folds, .= over heterogeneous streams (missing and empty cells, JSON and CSV) == Python fold"),
    Sub("op_assign_equivalence", sub_opassign, body_opassign, shards={"quick": 2, "thorough": 2}, rule="t op= v == t = t op v for unset/number/empty/string/map targets and number/empty/absent/null/map/bool/array right-hand sides"),
]

KNOWN = {}
