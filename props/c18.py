"""C18 - no input, program or argument makes Miller panic or hang."""
import collections
import itertools
import json
import os
import re

from hypothesis import strategies as st

from vlib.core import Sub
from vlib import run as vrun

LEVEL = "exploration"
RULE = ("crash/hang oracle (no Go panic / fatal error / stack trace on stderr, no death by signal, ends within the guard, a non-zero exit carries an `mlr:` "
        "diagnostic) over: every built-in function and operator from `mlr help usage-functions-by-class` x every tuple of argument kinds up to arity 3 "
        "(exhaustive over kind representatives; boundary numbers and hostile strings in every slot for arity <= 2), wrong arities; grammar-aware mutations of "
        "valid documents for every reader x reader options x writer; DSL programs under token-level mutation; every verb with hostile option values; "
        "non-trivial = a call with at least one non-number argument / a mutated document that the reader accepts or rejects after its first quarter / a "
        "mutated program / a verb invocation with a hostile value")
ASSUMPTIONS = ["count-like arguments that legitimately allocate (pad widths, repeat counts) are capped at 10^6: an allocation failure on a 2^63-byte request is not counted as a crash",
               "a hang is a run that exceeds 100x its normal duration and does so again in two reruns of the single case"]

AS_LIMIT = 6 << 30
ENV = {"GOGC": "100"}


_TRACE_HEAD = re.compile(rb"(?m)^(panic: |fatal error: |runtime: |SIG[A-Z]+: )")
_TRACE_BODY = re.compile(rb"(?m)^goroutine \d+ (gp=\S+ m=\S+ (mp=\S+ )?)?\[")


def crashed(res):
    """A Go runtime death: exit status 2 with a goroutine trace, or death by a signal that is not one of our guards.
    Text such as "runtime error" inside an ordinary mlr: diagnostic (which may quote the input) does not count."""
    if res.timed_out or res.capped:
        return False
    if res.rc is not None and res.rc < 0:
        return True
    return res.rc == 2 and bool(_TRACE_HEAD.search(res.err)) and bool(_TRACE_BODY.search(res.err))


def bad_exit(res):
    """non-zero exit without any diagnostic at all"""
    return res.rc not in (0, None) and not res.timed_out and not res.capped and res.rc > 0 and res.err.strip() == b""


# --------------------------------------------------------------------------------------------
# 1. builtins x argument kinds

RECORD = {"i": 3, "neg": -2, "z": 0, "one": 1, "imax": 9223372036854775807, "imin": -9223372036854775808, "cnt": 1000000, "f": 2.5, "nf": -1.5, "big": 1e308,
          "tiny": 5e-324, "b": True, "fb": False, "e": "", "s": "abc", "null": None, "arr": [1, 2], "earr": [], "narr": ["a", {"b": [1]}, [2, [3]]],
          "marr": [3, 1, 2, "x", {}, 2.5, True], "map": {"k": 1}, "emap": {}, "nmap": {"a": {"b": [1, {"c": 2}]}, "d": "x"}, "imap": {"3": 4, "-1": "x", "": 5},
          "flat": {"a.b": 1, "a.c": 2, "d.1": 3}, "hex": "0x1F", "uni": "é中\U0001F600", "sp": " ", "bin": "0b101", "sci": "1e3", "dur": "1d2h3m4s",
          "hms": "-01:02:03", "ts": "2023-01-01T00:00:00Z", "tsl": "2023-03-12 02:30:00", "js": '{"a":[1,{"b":2}]}', "badjs": '{"a":[1,', "nl": "a\nb\tc",
          "long": "x" * 5000, "negz": -0.0}

KINDS = collections.OrderedDict([
    ("int", ["$i", "$neg", "$z", "$one", "$imax", "$imin", "$cnt", "7", "-1", "64", "63"]),
    ("float", ["$f", "$nf", "$big", "$tiny", "@inf", "@nan", "-@inf", "$negz", "0.5", "1e300"]),
    ("bool", ["$b", "$fb"]),
    ("empty", ["$e"]),
    ("string", ["$s", '"%Y-%m-%dT%H:%M:%SZ"', "$ts", '"a.b:c"', '"%d"', '"%08.3lf"', "$hex", "$uni", '"("', '"[a-"', '"\\1"', '"Asia/Tokyo"', "$dur", "$hms", "$js", "$badjs",
                "$sp", '"."', '"%"', '"%%"', '"%Y%%"', '"abcdef%Y"', '"%j %U %e"', '"%5"', '"{}:{}"', '"a"', '"x=3,y=4"', '","', '"="', "$nl", "$long", "$tsl", '"Nowhere/Zone"',
                '"%s"', '"%lld%lle"', '"%x%o%b"', '"%-5d%"', '"(a)(b)?"', '"^$"', '"\\d+"', '"-"', '"0"', '"1_000"', '"true"', '"NaN"', '"natural"', '"f"', '"t"', '"c"', '"nr"',
                '"\\xff\\xfe"', '"%1$s"', '"%*d"', '"%.*f"', '"%99999d"', '"%H:%M:%S %p %Z %z"', '"%1S"', '"%9S"', '"%N"', '"%F %T"', '"%s.%f"']),
    ("array", ["$arr", "$earr", "$narr", "$marr", "[1,[2,[3,[4]]]]", '["a","b","a"]', "[$imax,$imin,@nan]"]),
    ("map", ["$map", "$emap", "$nmap", "$imap", "$flat", '{"interpolate_linearly":true,"output_array_not_map":true}', '{"array_is_final_sorted":true}', "$*", "@*", '{"env":3,"dir":4,"stdin_string":5}']),
    ("func", ["func(a) {return a}", "func(a,b) {return a <=> b}", "func(a,b) {return {a:b}}", "func() {return 1}", "func(a,b) {return a}", "func(a) {return a > 1}",
              "func(k,v) {return {toupper(k): v}}", "func(acc,e) {return acc . e}", 'func(a) {return absent}', 'func(a,b) {return "x"}', "func(a,b,c) {return a}"]),
    ("error", ['(1 + "q")']),
    ("null", ["$null"]),
    ("absent", ["$nosuch", "@nosuch", "nosuchlocal", "$*[7]", "@nosuch[1][2]"]),
])
REP = collections.OrderedDict((k, v[0]) for k, v in KINDS.items())
# a second representative per kind for arity-3 tuples (boundary-ish)
REP2 = {"int": "$imax", "float": "@nan", "string": '"%Y-%m-%dT%H:%M:%SZ"', "array": "$earr", "map": "$nmap", "func": "func(a,b) {return a <=> b}", "absent": "@nosuch"}

EXCLUDED_FUNCS = {"system": "runs an external command", "exec": "runs an external command"}
# (function, 0-up slot) whose argument is a count that legitimately allocates
COUNT_SLOTS = {("leftpad", 1), ("rightpad", 1), ("format_values", 1)}
HUGE = {"$imax", "@inf", "$big", "1e300", "[$imax,$imin,@nan]"}

PRELUDE = "@inf = 1e308 * 10; @nan = @inf - @inf;\n"


def function_table(ctx):
    res = ctx.mlr(["help", "usage-functions-by-class"])
    tab = []
    for m in re.finditer(r"^(\S+)  \(class=(\S+) #args=([^)]*)\)", res.out.decode(), re.M):
        name, cls, a = m.group(1), m.group(2), m.group(3)
        if a == "variadic":
            ar = [0, 1, 2, 3]
        elif "-" in a:
            lo, hi = a.split("-")
            ar = list(range(int(lo), int(hi) + 1))
        else:
            ar = [int(x) for x in a.split(",")]
        tab.append((name, cls, ar, a == "variadic"))
    return tab


def call_text(name, args):
    if re.match(r"^[a-z_0-9]+$", name):
        return "%s(%s)" % (name, ", ".join(args))
    if name == "?:":
        return "(%s) ? (%s) : (%s)" % tuple(args)
    if len(args) == 1:
        return "%s (%s)" % (name, args[0])
    return "(%s) %s (%s)" % (args[0], name, args[1])


# operator-like constructs that are not in the function list
EXTRA = [
    ("index[]", 2, lambda a: "t = %s ;; t[%s]" % tuple(a)),
    ("slice[:]", 3, lambda a: "t = %s ;; t[%s:%s]" % tuple(a)),
    ("index[][]", 3, lambda a: "t = %s ;; t[%s][%s]" % tuple(a)),
    ("index-then-slice", 3, lambda a: "t = [%s, {\"a\": %s}] ;; t[1][%s:2]" % (a[0], a[0], a[1]) + " . t[2][%s]" % a[2]),
    ("string-literal-slice", 2, lambda a: '"hello"[%s:%s]' % tuple(a)),
    ("array-literal-slice", 2, lambda a: "[1,2,3,4,5][%s:%s]" % tuple(a)),
    ("call-result-index", 2, lambda a: "splitax(%s, \",\")[%s]" % tuple(a)),
    ("positional-name", 1, lambda a: "$[[%s]]" % a[0]),
    ("positional-value", 1, lambda a: "$[[[%s]]]" % a[0]),
    ("field-by-expr", 1, lambda a: "$[%s]" % a[0]),
    ("oosvar-by-expr", 1, lambda a: "@[%s]" % a[0]),
    ("record-index", 2, lambda a: "$*[%s][%s]" % tuple(a)),
    ("map-literal", 2, lambda a: "{%s: %s}" % tuple(a)),
    ("array-literal", 2, lambda a: "[%s, %s]" % tuple(a)),
    ("dot-chain", 3, lambda a: "%s . %s . %s" % tuple(a)),
    ("min-max-mix", 3, lambda a: "min(%s, max(%s, %s))" % tuple(a)),
    ("env-index", 1, lambda a: "ENV[%s]" % a[0]),
    ("absent-coalesce-chain", 3, lambda a: "%s ?? %s ??? %s" % tuple(a)),
]
# statements (lvalue forms) with hostile index/value kinds
STMTS = [
    ("assign-field-by-expr", 2, lambda a: "$[%s] = %s" % tuple(a)),
    ("assign-positional-name", 2, lambda a: "$[[%s]] = %s" % tuple(a)),
    ("assign-positional-value", 2, lambda a: "$[[[%s]]] = %s" % tuple(a)),
    ("assign-oosvar-indexed", 3, lambda a: "@v[%s][%s] = %s" % tuple(a)),
    ("assign-local-indexed", 3, lambda a: "var t = %s; t[%s] = %s" % tuple(a)),
    ("assign-full-record", 1, lambda a: "$* = %s" % a[0]),
    ("assign-full-oosvar", 1, lambda a: "@* = %s" % a[0]),
    ("unset-indexed", 2, lambda a: "var t = %s; unset t[%s]" % tuple(a)),
    ("unset-field-by-expr", 1, lambda a: "unset $[%s]" % a[0]),
    ("for-single", 1, lambda a: "for (e in %s) {k = e}" % a[0]),
    ("for-kv", 1, lambda a: "for (k, v in %s) {x = k . v}" % a[0]),
    ("for-multikey", 1, lambda a: "for ((k1, k2), v in %s) {x = k1}" % a[0]),
    ("emit-expr", 1, lambda a: "emit %s" % a[0]),
    ("emit1-expr", 1, lambda a: "emit1 %s" % a[0]),
    ("emit-by", 2, lambda a: '@w = %s; emit @w, %s' % tuple(a)),
    ("emitp-by", 2, lambda a: '@w = %s; emitp @w, %s' % tuple(a)),
    ("emit-lashed", 2, lambda a: '@w = %s; @u = %s; emit (@w, @u), "a"' % tuple(a)),
    ("dump-expr", 1, lambda a: "dump > stderr, %s" % a[0]),
    ("print-expr", 1, lambda a: "print > stderr, %s" % a[0]),
    ("tee-expr", 1, lambda a: 'tee > "/dev/null", %s' % a[0]),
    ("filter-expr", 1, lambda a: "filter %s" % a[0]),
    ("if-cond", 1, lambda a: "if (%s) {x = 1} elif (%s) {x = 2}" % (a[0], a[0])),
    ("while-cond", 1, lambda a: "while (%s) {break}" % a[0]),
    ("typed-local", 2, lambda a: "num x = %s; str y = %s" % tuple(a)),
    ("op-assign", 2, lambda a: "var t = %s; t .= %s; t += %s; t <<= %s; t ??= %s; t **= %s; t //= %s" % (a[0], a[1], a[1], a[1], a[1], a[1], a[1])),
]


def wrap_expr(i, e):
    # an untyped local accepts every kind (a `var` rejects error values with a fatal mlr: error)
    pre = ""
    if " ;; " in e:
        pre, e = e.split(" ;; ", 1)
        pre = "unset t; " + pre + ";"
    return ('print > stderr, "B%d";\n%sunset r; r = %s;\nprint > stderr, "E%d\\t" . typeof(r);\nif (typeof(r) != "funct") {$o = r}\n' % (i, pre, e, i))


def wrap_stmt(i, s):
    return ('print > stderr, "B%d";\nif (true) {var sv = $*; var so = @*; if (true) {%s;}\nprint > stderr, "E%d\\tstmt"; $* = sv; @* = so}\n' % (i, s, i))


def run_batch(ctx, items, timeout=40.0):
    """items: list of (kind, text) with kind in expr|stmt. Returns Result."""
    prog = PRELUDE + "".join(wrap_expr(i, t) if k == "expr" else wrap_stmt(i, t) for i, (k, t) in enumerate(items))
    d = vrun.newdir("b")
    path = os.path.join(d, "p.mlr")
    with open(path, "w") as f:
        f.write(prog)
    res = ctx.mlr(["--ijson", "--ojson", "put", "-f", path], stdin=json.dumps(RECORD).encode(), timeout=timeout, env_extra=ENV, as_limit=AS_LIMIT, cap=64 << 20)
    try:
        os.unlink(path)
        os.rmdir(d)
    except OSError:
        pass
    return res


def markers(err):
    began, ended = -1, {}
    for ln in err.split(b"\n"):
        if ln[:1] == b"B" and ln[1:].isdigit():
            began = max(began, int(ln[1:]))
        elif ln[:1] == b"E":
            p = ln[1:].split(b"\t")
            if p[0].isdigit():
                ended[int(p[0])] = p[1].decode("latin-1") if len(p) > 1 else ""
    return began, ended


def judge_single(ctx, item, why):
    """Re-run one item alone; returns a failure message or None."""
    hangs = 0
    for attempt in range(3):
        res = run_batch(ctx, [item], timeout=15.0)
        if crashed(res):
            tr = res.err.decode("utf-8", "replace")
            m = re.search(r"(panic:[^\n]*|fatal error:[^\n]*)", tr)
            return "Go crash (%s) evaluating `%s`" % (m.group(1) if m else "rc=%s" % res.rc, item[1])
        if bad_exit(res):
            return "exit status %s with no diagnostic evaluating `%s`" % (res.rc, item[1])
        if res.capped:
            return "unbounded output (> 64 MiB) evaluating `%s`" % item[1]
        if res.timed_out:
            hangs += 1
            continue
        return None
    if hangs == 3:
        return "does not terminate (3 runs x 15 s, a normal call takes < 10 ms): `%s`" % item[1]
    return None


def process(ctx, items, meta, depth=0):
    """Runs items (list of (kind,text)); meta[i] = (key, nontrivial). Records cases; reports crashes."""
    while items:
        rest = _process_once(ctx, items, meta, depth)
        if rest is None or len(ctx.violations) >= 5:
            return
        items, meta = items[rest:], meta[rest:]


def _process_once(ctx, items, meta, depth):
    """Returns the index to resume from, or None when everything was handled."""
    res = run_batch(ctx, items)
    began, ended = markers(res.err)
    clean = res.rc == 0 and not crashed(res) and not res.timed_out and not res.capped
    if clean:
        for i, (it, m) in enumerate(zip(items, meta)):
            ctx.case(m[0], m[1], labels=("outcome:" + ended.get(i, "?"),), sample=it[1] if m[1] and (len(ctx.samples) < 1 or ctx.evaluations % 9973 == 0) else None)
        return None
    if began < 0 and not crashed(res) and not res.timed_out and res.rc == 1:
        # the program did not start: a parse-time mlr: error somewhere in the batch
        if len(items) == 1:
            ok = b"mlr:" in res.err or b"mlr " in res.err
            ctx.case(meta[0][0], meta[0][1], labels=("outcome:parse-time-error" if ok else "outcome:parse-time-error-without-mlr-prefix",))
            if not ok:
                ctx.note("parse-time failure without mlr: prefix: %s -> %r" % (items[0][1][:120], res.err[:160]))
            return None
        h = len(items) // 2
        process(ctx, items[:h], meta[:h], depth + 1)
        process(ctx, items[h:], meta[h:], depth + 1)
        return None
    stop = began if began >= 0 else 0
    for i in range(stop):
        ctx.case(meta[i][0], meta[i][1], labels=("outcome:" + ended.get(i, "?"),))
    cul = items[stop]
    if res.rc == 1 and not crashed(res) and not res.timed_out and not res.capped and not bad_exit(res) and stop not in ended:
        # an ordinary fatal error inside the item: an accepted outcome
        lab = "outcome:fatal-mlr-error" if b"mlr" in res.err else "outcome:fatal-without-mlr-prefix"
        if lab.endswith("prefix"):
            ctx.note("fatal error without mlr: prefix: %s -> %r" % (cul[1][:120], res.err[-120:]))
        ctx.case(meta[stop][0], meta[stop][1], labels=(lab,))
        return stop + 1
    msg = judge_single(ctx, cul, "single")
    if msg is None and (crashed(res) or res.timed_out or res.capped or bad_exit(res)):
        # not reproducible alone: it depends on earlier statements of the batch
        if stop > 0 and depth < 10:
            h = (stop + 1) // 2
            process(ctx, items[h:stop + 1], meta[h:stop + 1], depth + 1)
            return stop + 1
        if stop == 0 and len(items) > 1 and stop in ended and depth < 10:
            # the first item completed; the failure is after the last marker (writer / end of stream)
            h = len(items) // 2
            process(ctx, items[:h], meta[:h], depth + 1)
            process(ctx, items[h:], meta[h:], depth + 1)
            return None
        ctx.inconclusive += 1
        ctx.note("batch-level failure not reproducible on the single item `%s`: rc=%s timed_out=%s %s" % (cul[1][:100], res.rc, res.timed_out, res.err[-200:].decode("utf-8", "replace")))
        return stop + 1
    if msg is not None:
        ctx.case(meta[stop][0], meta[stop][1], labels=("outcome:CRASH-OR-HANG",))
        ctx.guard(ctx.fail, {"kind": cul[0], "text": cul[1]}, msg)
    else:
        lab = "outcome:fatal-mlr-error" if b"mlr" in res.err else "outcome:fatal-without-mlr-prefix"
        if lab.endswith("prefix"):
            ctx.note("fatal error without mlr: prefix: %s -> %r" % (cul[1][:120], res.err[-160:]))
        ctx.case(meta[stop][0], meta[stop][1], labels=(lab,))
    return stop + 1


def excluded_call(name, args):
    for j, a in enumerate(args):
        if (name, j) in COUNT_SLOTS and a in HUGE:
            return True
    return False


def hash_small(name):
    return sum(ord(c) for c in name)


def builtin_items(ctx, tab):
    """Yield (key, nontrivial, (kind, text)) deterministically."""
    quick = ctx.quick
    flat_all = [(k, v) for k, vs in KINDS.items() for v in vs]
    reps = list(REP.items())
    reps3 = reps + [(k, v) for k, v in REP2.items()]
    # quick: boundary subset for arity-2
    q2 = reps + [("int", "$imax"), ("int", "$imin"), ("int", "$z"), ("int", "$cnt"), ("float", "@nan"), ("float", "@inf"), ("string", '"%Y-%m-%dT%H:%M:%SZ"'),
                 ("string", "$uni"), ("array", "$earr"), ("map", "$nmap"), ("string", '"[a-"'), ("string", '"%"')]
    for name, cls, arities, variadic in tab:
        if name in EXCLUDED_FUNCS:
            ctx.excluded["function %s: %s" % (name, EXCLUDED_FUNCS[name])] += 1
            continue
        for ar in arities:
            if ar == 0:
                yield ((name, 0), False, ("expr", call_text(name, [])))
                continue
            if ar == 1:
                pool = [flat_all]
            elif ar == 2:
                pool = [q2, q2] if quick else [flat_all, flat_all]
            else:
                pool = [reps, reps, reps] if quick else [reps3, reps3, reps3]
            if not re.match(r"^[a-z_0-9]+$", name) and ar > 2 and name != "?:":
                continue
            for ci, combo in enumerate(itertools.product(*pool)):
                if quick and ar == 3 and ci % 3 != hash_small(name) % 3:
                    continue   # quick: a fixed third of the arity-3 kind tuples per function
                args = [c[1] for c in combo]
                kinds = tuple(c[0] for c in combo)
                if excluded_call(name, args):
                    ctx.excluded["count argument of %s capped at 10^6" % name] += 1
                    continue
                yield ((name,) + tuple(args), any(k not in ("int", "float") for k in kinds), ("expr", call_text(name, args)))
    for name, ar, mk in EXTRA + STMTS:
        kind = "stmt" if (name, ar, mk) in STMTS else "expr"
        pool = [flat_all] if ar == 1 else ([q2] * ar if (quick or ar == 3) else [flat_all] * ar)
        if ar == 3 and quick:
            pool = [reps] * 3
        for combo in itertools.product(*pool):
            args = [c[1] for c in combo]
            if name == "assign-local-indexed" and args[1] in HUGE:
                # `t[2^63-1] = x` auto-extends an array (a scalar base is first replaced by an array): an allocation request, like a pad width
                ctx.excluded["array index above 10^6 in an auto-extending assignment"] += 1
                continue
            yield ((name,) + tuple(args), any(c[0] not in ("int", "float") for c in combo), (kind, mk(args)))


def sub_builtins(ctx):
    tab = function_table(ctx)
    if len(tab) < 200:
        raise RuntimeError("function table has only %d entries" % len(tab))
    ctx.label("functions-in-table", len(tab) if ctx.shard == 0 else 0)
    batch, meta = [], []
    n = 0
    B = 250
    for key, nt, item in builtin_items(ctx, tab):
        n += 1
        # interleaved sharding keeps every shard's mix similar
        if (n // B) % ctx.nshards != ctx.shard:
            continue
        batch.append(item)
        meta.append((key, nt))
        if len(batch) >= B:
            process(ctx, batch, meta)
            batch, meta = [], []
            if len(ctx.violations) >= 5:
                return
    process(ctx, batch, meta)


def replay_item(ctx, case):
    msg = judge_single(ctx, (case["kind"], case["text"]), "replay")
    ctx.case(("replay", case["text"]), True)
    if msg:
        ctx.fail(case, msg)


def sub_arity(ctx):
    """Each function with one argument too few and one too many: a parse-time mlr: error, never a crash."""
    tab = function_table(ctx)
    jobs = []
    for name, cls, arities, variadic in tab:
        if variadic or not re.match(r"^[a-z_0-9]+$", name):
            continue
        for ar in (min(arities) - 1, max(arities) + 1):
            if ar < 0:
                continue
            jobs.append((name, ar, arities))
    for idx, (name, ar, arities) in enumerate(jobs):
        if idx % ctx.nshards != ctx.shard:
            continue
        e = call_text(name, ["1"] * ar)
        res = ctx.mlr(["-n", "put", "end{x = %s}" % e], env_extra=ENV, timeout=15)
        ctx.case((name, ar), True, labels=("rc=%s" % res.rc,))
        case = {"kind": "arity", "text": e}
        if crashed(res) or res.timed_out:
            ctx.guard(ctx.fail, case, "wrong arity call `%s` crashes or hangs: %s" % (e, res.err[:300].decode("utf-8", "replace")))
        elif res.rc == 0:
            ctx.guard(ctx.fail, case, "`%s` (documented arity %s) is accepted without an error" % (e, arities))
        elif b"mlr:" not in res.err or name.encode() not in res.err:
            ctx.guard(ctx.fail, case, "`%s`: the arity error does not name the function: %r" % (e, res.err[:200]))


def replay_arity(ctx, case):
    res = ctx.mlr(["-n", "put", "end{x = %s}" % case["text"]], env_extra=ENV, timeout=15)
    ctx.case(("replay", case["text"]), True)
    if crashed(res) or res.timed_out or res.rc == 0 or b"mlr:" not in res.err:
        ctx.fail(case, "wrong-arity call `%s`: rc=%s %r" % (case["text"], res.rc, res.err[:200]))


SUBCHECKS = [
    Sub("builtins_by_kind", sub_builtins, replay_item, shards={"quick": 16, "thorough": 16}, exhaustive=True, cost=4,
        rule="every function/operator of `mlr help usage-functions-by-class` x kind tuples (see RULE), plus indexing/slicing/positional/lvalue/emit/loop constructs with hostile operand kinds"),
    Sub("wrong_arity", sub_arity, replay_arity, shards={"quick": 4, "thorough": 4}, exhaustive=True,
        rule="each non-variadic function called with one argument too few and one too many: parse-time mlr: error naming the function"),
]

KNOWN = {}


# --------------------------------------------------------------------------------------------
# 2. readers x options x mutated documents

import bz2 as _bz2
import gzip as _gzip
import zlib as _zlib

U8 = lambda s: s.encode("utf-8")

RECSETS = [
    [[("a", "1"), ("b", "2"), ("c", "3")], [("a", "4"), ("b", "5"), ("c", "6")], [("a", "7"), ("b", "8"), ("c", "9")]],
    [[("a", "1"), ("b", "x y"), ("c", "")], [("a", "\u00e9"), ("b", 'q"uo,te'), ("g", "-0.5e3")], [("b", "0x1F"), ("a", "1_000"), ("h", "a=b:c;d|e")], [("a", "3"), ("b", "4"), ("c", "5")]],
    [[("k%d" % i, str(i * j)) for i in range(1, 21)] for j in range(1, 4)],
    [[("a", "1"), ("b", "2"), ("a", "3"), ("c", "4"), ("d", "5"), ("e", "6"), ("f", "7"), ("g", "8"), ("h", "9"), ("i", "10"), ("b", "11")], [("a", "1"), ("b", "2")]],
    [[("x", "#not a comment"), ("y", "line1\nline2"), ("z", "tab\there")], [("x", " lead"), ("y", "trail "), ("z", "-")]],
]


def _csvq(s, seps=',"\n\r'):
    return '"' + s.replace('"', '""') + '"' if s == "" or any(c in s for c in seps) or s[:1] == " " or s[-1:] == " " else s


def _tsvq(s):
    return s.replace("\\", "\\\\").replace("\t", "\\t").replace("\n", "\\n").replace("\r", "\\r")


def _homog(recs):
    keys = [k for k, _ in recs[0]]
    return [r for r in recs if [k for k, _ in r] == keys]


def w_csv(recs, fs=",", rs="\n", q=_csvq):
    out, prev = [], None
    for r in recs:
        keys = [k for k, _ in r]
        if keys != prev:
            if prev is not None:
                out.append("")
            out.append(fs.join(q(k) for k in keys))
            prev = keys
        out.append(fs.join(q(v) for _, v in r))
    return rs.join(out) + rs


def w_json(recs, nested=True):
    objs = []
    for i, r in enumerate(recs):
        d = collections.OrderedDict(r)
        if nested and i == 0:
            d["n"] = {"p": [1, {"q": 2.5}, [True, None]], "r": {}}
        objs.append(d)
    return json.dumps(objs, indent=2, ensure_ascii=False) + "\n"


def w_yaml(recs):
    out = []
    for i, r in enumerate(recs):
        first = True
        for k, v in collections.OrderedDict(r).items():
            out.append(("- " if first else "  ") + "%s: %s" % (k, json.dumps(v, ensure_ascii=False)))
            first = False
        if i == 0:
            out += ["  n:", "    p:", "      - 1", "      - q: 2.5", "    r: {}", "  t: |", "    block", "    text", "  u: &anc 5", "  w: *anc"]
    return "\n".join(out) + "\n"


def w_pprint(recs, barred=False):
    out = []
    for r in recs:
        ks = [k for k, _ in r]
        vs = [v.replace(" ", "_").replace("\n", "_").replace("\t", "_") or "-" for _, v in r]
        ws = [max(len(a), len(b)) for a, b in zip(ks, vs)]
        if barred:
            bar = "+" + "+".join("-" * (w + 2) for w in ws) + "+"
            out += [bar, "| " + " | ".join(a.ljust(w) for a, w in zip(ks, ws)) + " |", bar, "| " + " | ".join(a.ljust(w) for a, w in zip(vs, ws)) + " |", bar, ""]
        else:
            out += [" ".join(a.ljust(w) for a, w in zip(ks, ws)), " ".join(a.ljust(w) for a, w in zip(vs, ws)), ""]
    return "\n".join(out)


def w_md(recs):
    recs = _homog(recs)
    ks = [k for k, _ in recs[0]]
    out = ["| " + " | ".join(ks) + " |", "| " + " | ".join("---" for _ in ks) + " |"]
    for r in recs:
        out.append("| " + " | ".join(v.replace("\n", " ").replace("|", "\\|") for _, v in r) + " |")
    return "\n".join(out) + "\n"


def w_kv(recs, ps, fs, rs, blank=False):
    return "".join(fs.join(k + ps + v for k, v in r) + rs + (rs if blank else "") for r in recs)


SEED_WRITERS = collections.OrderedDict([
    ("csv", lambda R: w_csv(R)), ("csvlite", lambda R: w_csv(R)), ("tsv", lambda R: w_csv(R, fs="\t", q=_tsvq)), ("tsvlite", lambda R: w_csv(R, fs="\t", q=_tsvq)),
    ("usv", lambda R: w_csv(R, fs="\u241f", rs="\u241e", q=lambda s: s)), ("asv", lambda R: w_csv(R, fs="\x1f", rs="\x1e", q=lambda s: s)),
    ("json", lambda R: w_json(R)), ("jsonl", lambda R: "".join(json.dumps(collections.OrderedDict(r), ensure_ascii=False) + "\n" for r in R)),
    ("yaml", w_yaml), ("dkvp", lambda R: w_kv(R, "=", ",", "\n")), ("dkvpx", lambda R: "".join(",".join(_csvq(k, ',"=\n') + "=" + _csvq(v, ',"=\n') for k, v in r) + "\n" for r in R)),
    ("nidx", lambda R: "".join(" ".join(v.replace(" ", "_") or "-" for _, v in r) + "\n" for r in R)),
    ("xtab", lambda R: "".join("".join("%-4s %s\n" % (k, v.replace("\n", " ")) for k, v in r) + "\n" for r in R)),
    ("pprint", lambda R: w_pprint(R)), ("pprint-barred", lambda R: w_pprint(R, True)), ("markdown", w_md),
    ("dcf", lambda R: "".join("".join("%s: %s\n" % (k, v.replace("\n", "\n ")) for k, v in r) + "\n" for r in R)),
    ("recutils", lambda R: "# comment\n%rec: T\n\n" + "".join("".join("%s: %s\n" % (k, v.replace("\n", "\n+ ")) for k, v in r) + "\n" for r in R)),
    ("gz", lambda R: w_csv(R)), ("bz2", lambda R: w_csv(R)), ("zlib", lambda R: w_csv(R)),
])
IFLAGS = {"csv": ["--icsv"], "csvlite": ["--icsvlite"], "tsv": ["--itsv"], "tsvlite": ["--itsvlite"], "usv": ["--iusv"], "asv": ["--iasv"], "json": ["--ijson"], "jsonl": ["--ijsonl"],
          "yaml": ["--iyaml"], "dkvp": ["--idkvp"], "dkvpx": ["-i", "dkvpx"], "nidx": ["--inidx", "--ifs", "space"], "xtab": ["--ixtab"], "pprint": ["--ipprint"],
          "pprint-barred": ["--ipprint", "--barred-input"], "markdown": ["--imd"], "dcf": ["--idcf"], "recutils": ["--irecutils"],
          "gz": ["--icsv", "--gzin"], "bz2": ["--icsv", "--bz2in"], "zlib": ["--icsv", "--zin"]}
HAND_SEEDS = {
    "csv": ['a,b\n"x\ny",2\n', 'a,b,c\n1,2\n3,4,5,6\n', '\ufeffa,b\n1,2\n', 'a,a,a\n1,2,3\n', 'a\n\n\n', '"a""b","c"\n"1","2"\n', "a,b\r\n1,2\r\n", "a,b", ",\n,\n"],
    "tsv": ["a\tb\n1\\t2\t3\n", "a\tb\n1\n", "a\\tb\tc\n1\t2\n"],
    "json": ['{"a":1}{"a":2}\n[{"a":3}]', '[\n{"a":"\\u00e9\\ud83d\\ude00","b":1e400,"c":-0,"d":0x1F,"e":[[[[]]]]}\n]', '{"a":1,"a":2}', "[]", "{}", '{"":""}', '// c\n{"a":1}', '1 2 "x" null', '[{"a":{"b":{"c":{"d":{"e":1}}}}}]'],
    "jsonl": ['{"a":1}\n\n{"b":[1,2]}\n', '{"a":1}\r\n{"a":2}'],
    "yaml": ["a: 1\n", "---\na: 1\n---\nb: 2\n...\n", "- [1,2]\n- {a: 1}\n", "a: &x [1,2]\nb: *x\nc: !!str 5\n? k\n: v\n", "a:\n  - b:\n      - c: 1\n", "- a: 1\n  a: 2\n", "a: |\n  x\n  y\nb: >\n  z\n", "a: *nosuch\n", "a: &a [*a]\n"],
    "dkvp": ["a=1,b=2\nc=3\n", "abc,def\n=,=\n", "a=1,,b=2,\n", "a==1,b=\n"],
    "dkvpx": ['a="x,y",b="1""2"\n', '"k=1"="v\nw",c=3\n', 'a="unterminated\n'],
    "nidx": ["a  b   c\n", " lead trail \n"],
    "xtab": ["a 1\nb 2\n\n\n\na 3\n", "a\nb 2\n", "a 1", "   \n"],
    "pprint": ["a   b\n1   2\n\nc\n3\n", "a b\n1\n", "a b\n- -\n"],
    "pprint-barred": ["+---+\n| a |\n+---+\n| 1 |\n+---+\n", "| a | b |\n| 1 |\n", "+\n|\n"],
    "markdown": ["| a | b |\n| --- | --- |\n| 1 | 2 |\n", "| a |\n| 1 |\n", "|\n|\n", "a | b\n--- | ---\n1 | 2\n"],
    "dcf": ["Package: x\nDepends: a,\n b\n\nPackage: y\n", ": v\n", "k\n", " continuation first\n"],
    "recutils": ["%rec: A\n%key: k\n\nk: 1\nv: a\n+ b\n\n# c\nk: 2\n", "+ orphan\n", "k:\n", "k: 1\nk: 2\n"],
    "usv": [], "asv": [], "csvlite": ["a,b\n1,2\n\nc\n3\n", "a,b\n1\n"], "tsvlite": [],
}
GENERIC_TOKENS = [b'"', b'""', b",", b"\n", b"\r", b"\r\n", b"\t", b" ", b"=", b":", b";", b"|", b"\\", b'\\"', b"\x00", b"\xff", b"\xef\xbb\xbf", b"\xc3", b"\xf0\x9f", b"#", b"//", b"-", b"---",
                  b"...", b"{", b"}", b"[", b"]", b"{}", b"[]", b"null", b"true", b"1e999", b"-0", b"0x", b"0xFFFFFFFFFFFFFFFFF", b"1_000", b"9" * 400, b"NaN", b"Inf", b"%", b"\\u0000",
                  b"\\ud800", b"\\u", b"\\x", b"'", b"`", b"&a", b"*a", b"? ", b"- ", b": ", b"|\n", b">\n", b"!!binary ", b"a_2", b"a", b"1", b"+", b".", b"e", b"\x1f", b"\x1e",
                  b"\xe2\x90\x9f", b"\xe2\x90\x9e", b"\\t", b"\\n", b"\\", b"+ ", b"%rec: ", b"\n\n", b"\n \n", b"a=", b"=,", b'","', b'"\n"', b"| |", b"+-+", b"<<: ", b"~"]
NEST_TOKENS = [b"[", b"{", b'{"a":', b"- ", b"  ", b'[{"a":', b"? ", b"- - ", b"a:\n ", b"]", b"}", b"(", b'"']
STRUCT = set(b',"\n\r\t =:;|{}[]-#\\\x1f\x1e+%&*')
READER_OPTS = [
    ["--allow-ragged-csv-input"], ["--lazy-quotes"], ["--implicit-csv-header"], ["--csv-trim-leading-space"], ["--no-dedupe-field-names"], ["--dedupe-field-names"],
    ["--records-per-batch", "1"], ["--records-per-batch", "2"], ["--records-per-batch", "3"], ["--pass-comments"], ["--skip-comments"], ["--pass-comments-with", "//"],
    ["--skip-comments-with", "a"], ["--skip-comments-with", '"'], ["--skip-comments-with", ""], ["--pass-comments-with", ""], ["--ifs", ";"], ["--ifs", "::"], ["--ifs", "tab"], ["--ifs", "space"],
    ["--ifs", "a"], ["--ifs", '"'], ["--ifs", "\\n"], ["--ifs", ""], ["--ifs", "ascii_null"], ["--ifs", "\\x01"], ["--ifs-regex", "[;,]"], ["--ifs-regex", " +"], ["--ifs-regex", "()"],
    ["--ifs-regex", "a*"], ["--ifs-regex", "("], ["--ips", ":"], ["--ips", "::"], ["--ips", "a"], ["--ips", ""], ["--ips-regex", "[:=]"], ["--ips-regex", "x*"], ["--ips-regex", "["],
    ["--irs", ";"], ["--irs", "crlf"], ["--irs", "a"], ["--irs", ""], ["--repifs"], ["--incr-key"], ["--barred-input"], ["-S"], ["-A"], ["-O"], ["--infer-none"], ["--infer-octal"],
    ["--no-auto-unflatten"], ["--no-auto-flatten"], ["--flatsep", ""], ["--flatsep", ":"], ["--ofmt", "%.3f"], ["--ofmt", "%d"], ["--ofmt", "%s"], ["--ofmt", "%"], ["--ofmt", ""],
    ["--ofmt", "%08llx"], ["--fflatsep", "a"], ["--nr-progress-mod", "1"], ["--nr-progress-mod", "0"], ["--nr-progress-mod", "-1"], ["--nr-progress-mod", "x"],
    ["--records-per-batch", "0"], ["--records-per-batch", "-1"], ["--records-per-batch", "99999999999999999999"], ["--records-per-batch", "x"], ["--records-per-batch", ""],
    ["--tz", ""], ["--tz", "Nowhere/Zone"], ["--tz", "Asia/Tokyo"], ["--seed", "0"], ["--seed", "-1"], ["--seed", "0xff"], ["--seed", "x"], ["--seed", ""],
    ["--gzin"], ["--bz2in"], ["--zin"], ["--zstdin"], ["--prepipe", "cat"], ["--prepipe", "head -c 13"], ["--prepipex", "cat"], ["--prepipe-gunzip"], ["--no-fflush"], ["--fflush"],
    ["--fixed", "left-align-multi-word"], ["--fw", "2,3,4"], ["--fixed", "x"], ["--fixed", "0"], ["--fixed", "-1,2"], ["--right"], ["--xvright"], ["--key-color", "red"], ["-M"], ["-C"],
    ["--hash-records"], ["--no-hash-records"], ["--load", "/nonexistent"], ["--ofs", ""], ["--ops", ""], ["--ors", ""], ["--ofs", "\\x00"], ["--quote-all"], ["--quote-original"],
    ["--headerless-csv-output"], ["--no-auto-unsparsify"], ["--jvquoteall"], ["--no-jvstack"], ["--jlistwrap"], ["--no-jlistwrap"], ["--barred"], ["--barred-unicode"], ["--right-align-numeric"],
    ["--yarray"], ["--no-yarray"], ["--md-aligned"], ["--jflatsep", "::"], ["--idkvp", "--ifs", ";", "--ips", ":"], ["-n"], ["--from", "/nonexistent"], ["--ifs", "semicolon", "--ips", "colon"],
]
N_CORE_OPTS = 12  # the leading entries of READER_OPTS: ragged, lazy quotes, implicit header, trimming, dedupe, batch size, comments
CHAINS = [
    ["cat"], ["cat"], ["cat", "-n", "-g", "a"], ["sort", "-f", "a"], ["sort", "-nr", "1"], ["sort", "-t", "a", "-c", "b"], ["put", "$z = $*"], ["put", '$n = NF . ":" . NR . ":" . FILENAME'],
    ["put", "-q", "emit mapsum($*, {\"nr\": NR})"], ["put", "for (k, v in $*) {$[k . \"_t\"] = typeof(v)}"], ["put", "$* = mapexcept($*, \"a\"); unset $[[1]]"], ["unsparsify"], ["unsparsify", "--fill-with", "X"],
    ["head", "-n", "2", "then", "tac"], ["reorder", "-e", "-f", "a"], ["nest", "--ivar", ";", "-f", "a"], ["nest", "--explode", "--values", "--across-records", "-f", "b", "--nested-fs", " "],
    ["flatten"], ["unflatten"], ["flatten", "then", "unflatten"], ["json-parse"], ["json-parse", "-k"], ["json-stringify"], ["sec2gmt", "a"], ["sec2gmt", "-9", "a,b,1"], ["sec2gmtdate", "a"],
    ["fill-down", "-a"], ["fill-empty"], ["fill-empty", "-S"], ["count-distinct", "-f", "a"], ["count-distinct", "-f", "a,b", "-u"], ["stats1", "-a", "p50,mean,count,min,max,mode,antimode,first,last,distinct_count,null_count,minlen", "-f", "a,b,1"],
    ["stats1", "-a", "p10,p90,iqr,lof,uof,var,meaneb,skewness,kurtosis", "-f", "a,k2", "-i"], ["stats2", "-a", "linreg-ols,r2,cov,corr,linreg-pca", "-f", "a,b"], ["merge-fields", "-a", "sum,count,p50", "-c", "a,k", "-o", "out"],
    ["merge-fields", "-k", "-a", "max,antimode", "-f", "a,b,c", "-o", "out"], ["summary"], ["summary", "--transpose"], ["summary", "-a", "minlen,maxlen,null_count,mean,median,mode"], ["case", "-u", "-k", "-f", "a"],
    ["format-values"], ["format-values", "-n", "-f", "%.3lf"], ["having-fields", "--at-least", "a"], ["sparsify"], ["sparsify", "-s", "X", "-f", "a,b"], ["utf8-to-latin1"], ["latin1-to-utf8"], ["template", "-f", "z,a"],
    ["sort-within-records", "-r"], ["regularize"], ["label", "x,y,z"], ["rename", "-r", "^(.)(.*)$,\\2\\1"], ["rename", "-g", "-r", "a,bb"], ["nothing"], ["tac"], ["group-like"],
    ["group-by", "a"], ["top", "-f", "a", "-a"], ["top", "-n", "2", "-f", "b", "-g", "a", "-o", "best"], ["step", "-a", "delta,shift,shift_lag,shift_lead,ratio,counter,count,rsum,rprod,from-first,ewma", "-d", "0.1,0.9", "-f", "a,b"],
    ["step", "-a", "slwin_2_2,slwin_0_1", "-f", "a"], ["count-similar", "-g", "a"], ["fraction", "-f", "a"], ["fraction", "-f", "a,b", "-p", "-c"], ["histogram", "-f", "a,b", "--lo", "0", "--hi", "10", "--nbins", "3"],
    ["histogram", "-f", "a", "--auto", "--nbins", "2"], ["seqgen", "--start", "1", "--stop", "3", "then", "cat"], ["cut", "-r", "-f", "^[ab]"], ["cut", "-o", "-f", "c,a"], ["decimate", "-n", "2"],
    ["bar", "-f", "a", "--lo", "0", "--hi", "10"], ["bar", "-f", "a,b", "--auto"], ["bootstrap"], ["shuffle"], ["sample", "-k", "2"], ["least-frequent", "-f", "a"], ["most-frequent", "-f", "a,b", "-b"],
    ["reshape", "-l2w", "-k", "a", "-v", "b"], ["reshape", "-w2l", "-i", "a,b", "-o", "k,v"], ["reshape", "-w2l", "-r", "^[a-c]", "-o", "k,v"], ["repeat", "-n", "2"], ["repeat", "-f", "a"], 
    ["gap", "-n", "1"], ["gap", "-g", "a"], ["grep", "-i", "A"], ["grep", "-v", "-a", "1"], ["json-parse", "then", "flatten", "-s", ":"], ["unspace"], ["unspace", "-f", "X", "-k"], ["remove-empty-columns"],
    ["skip-trivial-records"], ["altkv"], ["uniq", "-g", "a", "-c"], ["uniq", "-a", "-n"], ["uniq", "-d", "-g", "a"], ["uniq", "-a", "-c"], ["nest", "--evar", ";", "-f", "a"], ["tee", "/dev/null"], ["split", "-n", "2", "--prefix", "/dev/null/x"],
    ["surv", "-d", "a", "-s", "b"], ["sparkline", "-f", "a"], ["ssub", "-f", "a,b", "1", "X"], ["gsub", "-f", "a,b", "[0-9]", "X"], ["sub", "-a", "(", "X"], ["clean-whitespace"], ["clean-whitespace", "-k"],
    ["describe"], ["rank", "-f", "a"], ["check"], ["fill-down", "-f", "a", "--only-if-blank"], ["count", "-d", "-f", "a"], ["count", "-n", "-f", "a,b"], ["join", "-j", "a", "-f", "/dev/null"],
    ["join", "--np", "--ul", "--ur", "-j", "a", "-f", "@SELF"], ["join", "-u", "-j", "a", "--lp", "L", "--rp", "R", "-f", "@SELF"], ["join", "-s", "-j", "a", "-f", "@SELF"], ["case", "-s", "-f", "a,b"],
    ["sec2gmt", "--millis2gmt", "-3", "a"], ["head", "-n", "1", "-g", "a", "then", "put", "$nr = NR"], ["tail", "-n", "1", "-g", "b"], ["nest", "--implode", "--values", "--across-records", "-f", "a", "--nested-fs", ";"],
]
WRITERS = [["--ojson"], ["--ojson"], ["--ocsv"], ["--otsv"], ["--oxtab"], ["--opprint"], ["--opprint", "--barred"], ["--opprint", "--right"], ["--omd"], ["--onidx"], ["--odkvp"], ["--oyaml"], ["--odcf"],
           ["--orecutils"], ["--ousv"], ["--oasv"], ["-o", "dkvpx"], ["--ocsvlite"], ["--otsvlite"], ["--ojsonl"], ["--ocsv", "--quote-all"], ["--ocsv", "--headerless-csv-output"], ["--oxtab", "--xvright"],
           ["--ojson", "--jvquoteall"], ["--ojson", "--no-jvstack"], ["--ocsv", "--ors", "crlf"], ["--opprint", "--barred-unicode"], ["--omd-aligned"], ["--c2p"], ["--ocsv", "--no-auto-unsparsify"]]

_seed_cache = {}


def seeds_for(fmt):
    if fmt not in _seed_cache:
        docs = []
        for R in RECSETS:
            try:
                docs.append(U8(SEED_WRITERS[fmt](R)))
            except Exception:
                pass
        base = "csv" if fmt in ("gz", "bz2", "zlib") else fmt
        docs += [U8(s) for s in HAND_SEEDS.get(base.replace("-barred", "-barred"), [])]
        if fmt == "usv":
            docs += [d.replace(b",", U8("\u241f")).replace(b"\n", U8("\u241e")) for d in seeds_for("csvlite")[:2]]
        if fmt == "gz":
            docs = [_gzip.compress(d, mtime=0) for d in docs]
        elif fmt == "bz2":
            docs = [_bz2.compress(d) for d in docs]
        elif fmt == "zlib":
            docs = [_zlib.compress(d) for d in docs]
        _seed_cache[fmt] = docs
    return _seed_cache[fmt]


FLAT_CAP, NEST_CAP, DOC_CAP = 2000, 400, 4 << 20
MUT = st.one_of(
    st.tuples(st.just("trunc"), st.integers(0, 10 ** 6), st.booleans()),
    st.tuples(st.just("del"), st.integers(0, 10 ** 6), st.booleans(), st.integers(1, 24)),
    st.tuples(st.just("dup"), st.integers(0, 10 ** 6), st.booleans(), st.integers(1, 40), st.sampled_from([1, 1, 2, 3, 50, 300])),
    st.tuples(st.just("ins"), st.integers(0, 10 ** 6), st.booleans(), st.integers(0, len(GENERIC_TOKENS) - 1)),
    st.tuples(st.just("rep"), st.integers(0, 10 ** 6), st.booleans(), st.integers(0, len(GENERIC_TOKENS) - 1)),
    st.tuples(st.just("swap"), st.integers(0, 10 ** 6), st.booleans(), st.integers(1, 12)),
    st.tuples(st.just("flat"), st.integers(0, 10 ** 6), st.booleans(), st.integers(0, len(GENERIC_TOKENS) - 1), st.sampled_from([2, 10, 100, 1000, FLAT_CAP])),
    st.tuples(st.just("nest"), st.integers(0, 10 ** 6), st.booleans(), st.integers(0, len(NEST_TOKENS) - 1), st.sampled_from([2, 10, 100, NEST_CAP])),
    st.tuples(st.just("global"), st.sampled_from(["crlf", "cr", "bom", "nofinalnl", "dq", "nonl", "upper", "revlines", "gzip", "bz2", "zlib", "nul", "hi", "dupdoc", "spaces", "tabs", "longfield", "manylines"])),
    st.tuples(st.just("byte"), st.integers(0, 10 ** 6), st.integers(0, 255)),
)


def _pos(doc, k, structural):
    n = len(doc)
    if structural and n:
        idxs = [i for i in range(n) if doc[i] in STRUCT]
        if idxs:
            return idxs[k % len(idxs)]
    return k % (n + 1)


def apply_mut(doc, m):
    op = m[0]
    if op == "global":
        g = m[1]
        if g == "crlf":
            return doc.replace(b"\n", b"\r\n")
        if g == "cr":
            return doc.replace(b"\n", b"\r")
        if g == "bom":
            return b"\xef\xbb\xbf" + doc
        if g == "nofinalnl":
            return doc.rstrip(b"\n")
        if g == "dq":
            return doc.replace(b'"', b'""')
        if g == "nonl":
            return doc.replace(b"\n", b"")
        if g == "upper":
            return doc.upper()
        if g == "revlines":
            return b"\n".join(reversed(doc.split(b"\n")))
        if g == "gzip":
            return _gzip.compress(doc, mtime=0)
        if g == "bz2":
            return _bz2.compress(doc)
        if g == "zlib":
            return _zlib.compress(doc)
        if g == "nul":
            return doc.replace(b",", b"\x00").replace(b" ", b"\x00")
        if g == "hi":
            return bytes((b | 0x80) if b in b"abcxyz" else b for b in doc)
        if g == "dupdoc":
            return doc + doc
        if g == "spaces":
            return doc.replace(b",", b" , ").replace(b"=", b" = ").replace(b":", b" : ")
        if g == "tabs":
            return doc.replace(b" ", b"\t")
        if g == "longfield":
            return doc.replace(b"1", b"1" * 70000, 1)
        if g == "manylines":
            if len(doc) > 6000:
                return doc       # once is enough: 6000 duplicate YAML keys take 17 s on an idle machine (quadratic error list), many minutes on a busy one
            lines = doc.split(b"\n")
            return doc + b"\n".join(lines[-2:-1] * 3000) + b"\n"
        return doc
    if op == "byte":
        p = m[1] % (len(doc) + 1)
        return doc[:p] + bytes([m[2]]) + doc[p + 1:]
    p = _pos(doc, m[1], m[2])
    if op == "trunc":
        return doc[:p]
    if op == "del":
        return doc[:p] + doc[p + m[3]:]
    if op == "dup":
        return doc[:p] + doc[p:p + m[3]] * (m[4] + 1) + doc[p + m[3]:]
    if op == "ins":
        return doc[:p] + GENERIC_TOKENS[m[3]] + doc[p:]
    if op == "rep":
        return doc[:p] + GENERIC_TOKENS[m[3]] + doc[p + 1:]
    if op == "swap":
        l = m[3]
        return doc[:p] + doc[p + l:p + 2 * l] + doc[p:p + l] + doc[p + 2 * l:]
    if op == "flat":
        return doc[:p] + GENERIC_TOKENS[m[3]] * m[4] + doc[p:]
    if op == "nest":
        return doc[:p] + NEST_TOKENS[m[3]] * m[4] + doc[p:]
    return doc


@st.composite
def reader_case(draw):
    fmt = draw(st.sampled_from(list(SEED_WRITERS)))
    kind = draw(st.sampled_from(["mut", "mut", "mut", "mut", "mut", "mut", "binary", "text"]))
    c = {"fmt": fmt, "seed": draw(st.integers(0, 40)), "muts": [], "raw": None}
    if kind == "mut":
        c["muts"] = [list(m) for m in draw(st.lists(MUT, min_size=0, max_size=4))]
    elif kind == "binary":
        c["raw"] = draw(st.binary(max_size=200)).decode("latin-1")
    else:
        c["raw"] = draw(st.text(alphabet=st.sampled_from(list(',"\n\r\t =:;|{}[]-#\\ab1.\u00e9')), max_size=80)).encode("utf-8").decode("latin-1")
    # options that change what a reader does are drawn more often than writer-side and numeric main flags
    c["opts"] = draw(st.lists(st.sampled_from(READER_OPTS[:N_CORE_OPTS]), max_size=2)) + draw(st.lists(st.sampled_from(READER_OPTS), max_size=1))
    c["chain"] = draw(st.sampled_from(CHAINS))
    c["out"] = draw(st.sampled_from(WRITERS))
    c["via"] = draw(st.sampled_from(["stdin", "stdin", "file", "two-files", "then-chain"]))
    return c


def build_doc(case):
    if case.get("doc") is not None:
        return case["doc"].encode("latin-1")
    if case.get("raw") is not None:
        return case["raw"].encode("latin-1")
    seeds = seeds_for(case["fmt"])
    doc = seeds[case["seed"] % len(seeds)]
    for m in case["muts"]:
        doc = apply_mut(doc, tuple(m))
        if len(doc) > DOC_CAP:
            doc = doc[:DOC_CAP]
    return doc


def reader_argv(case, paths):
    chain = [paths[0] if x == "@SELF" else x for x in case["chain"]]
    if case["via"] == "then-chain":
        chain = chain + ["then", "put", "$nf = NF", "then", "sort-within-records"]
    argv = IFLAGS[case["fmt"]] + case["out"] + [x for o in case["opts"] for x in o] + chain
    if case["via"] == "file":
        argv += paths[:1]
    elif case["via"] == "two-files":
        argv += paths[:1] * 2
    return argv


def run_reader_case(ctx, case, doc, timeout=30.0):
    d = vrun.newdir("r")
    path = os.path.join(d, "in.dat")
    with open(path, "wb") as f:
        f.write(doc)
    try:
        argv = reader_argv(case, [path])
        use_stdin = case["via"] in ("stdin", "then-chain")
        return ctx.mlr(argv, stdin_path=path if use_stdin else None, timeout=timeout, env_extra=ENV, as_limit=AS_LIMIT, cap=256 << 20)
    finally:
        try:
            os.unlink(path)
            os.rmdir(d)
        except OSError:
            pass


HANG_JUDGED_MAX_INPUT = 64 << 10
LONG_GUARD = 120.0


def guard_for(ctx, normal):
    """Wall-clock guard of the first run: short while Hypothesis shrinks a failure (candidates only), normal otherwise."""
    return 8.0 if (ctx._shrinking and not ctx.confirming) else normal


def judge_run(ctx, case, res, rerun, what, insize):
    """Common oracle. rerun(timeout): runs the case again and returns a Result (for hang confirmation).
    A hang is reported only for inputs up to 64 KiB that exceed the guard once and then a 120 s guard twice more:
    several paths are quadratic or cubic in a single record's width or nesting depth, and slow is not the same as never."""
    if crashed(res):
        tr = res.err.decode("utf-8", "replace")
        m = re.search(r"(panic:[^\n]*|fatal error:[^\n]*)", tr)
        where = re.findall(r"\n\t(/repo|\S*/pkg)/(\S+:\d+)", tr)
        ctx.fail(case, "%s: Go crash (%s)%s" % (what, m.group(1) if m else "rc=%s" % res.rc, " at " + where[0][1] if where else ""), {"crash": True})
    if res.timed_out:
        if insize > HANG_JUDGED_MAX_INPUT:
            ctx.label("timeout-on-input-above-64KiB (not judged)")
            return "slow"
        if ctx._shrinking and not ctx.confirming:
            ctx.fail(case, "%s: hang candidate (8 s guard while shrinking)" % what, {"hang": True})
        # the long guard grows with the machine's load: three sweeps at once on 16 cores stretch a 17 s run beyond two minutes
        try:
            scale = max(1.0, os.getloadavg()[0] / float(os.cpu_count() or 1))
        except OSError:
            scale = 1.0
        long_guard = LONG_GUARD * min(scale, 6.0)
        again = [rerun(long_guard) for _ in range(2)]
        if all(r.timed_out for r in again):
            ctx.fail(case, "%s: does not terminate: one run beyond the guard, then two runs beyond %d s (input %d bytes; a normal run takes < 0.1 s)" % (what, long_guard, insize), {"hang": True})
        ctx.label("slow-once")
        return "slow"
    if res.capped:
        if insize > 16 << 10:
            # e.g. a self-join or nest --explode of 3000 identical lines is legitimately quadratic in records
            ctx.label("output-above-the-cap-on-input-above-16KiB (not judged)")
            return "slow"
        ctx.fail(case, "%s: output exceeds the cap for a %d-byte input" % (what, insize), {"flood": True})
    if bad_exit(res):
        ctx.fail(case, "%s: exit status %s with neither output nor a diagnostic" % (what, res.rc), {"silent": True})
    if res.rc != 0 and b"mlr" not in res.err:
        ctx.label("nonzero-exit-without-mlr-prefix")
        ctx.note("non-zero exit without `mlr` in the diagnostic: %r" % res.err[:120])
    return "ok" if res.rc == 0 else "rejected"


def body_reader(ctx, case):
    doc = build_doc(case)
    tmo = guard_for(ctx, 30.0)
    res = run_reader_case(ctx, case, doc, timeout=tmo)
    fc = case
    if crashed(res) or res.timed_out or res.capped or bad_exit(res):
        fc = dict(case)
        if len(doc) <= 1 << 18:
            fc["doc"] = doc.decode("latin-1")
    out = judge_run(ctx, fc, res, lambda t: run_reader_case(ctx, case, doc, timeout=t), "reader %s %s | %s | %s" % (case["fmt"], " ".join(x for o in case["opts"] for x in o), " ".join(case["chain"]), " ".join(case["out"])), len(doc))
    mutated = bool(case["muts"]) or case.get("raw") is not None
    ctx.case(("r", case["fmt"], json.dumps(case, sort_keys=True)), mutated and out in ("ok", "rejected") and (res.rc != 0 or len(res.out) > 0),
             labels=("fmt:" + case["fmt"], "outcome:" + out, "opts:%d" % len(case["opts"])) + tuple("mut:" + m[0] for m in case["muts"][:4]),
             sample={"fmt": case["fmt"], "opts": case["opts"], "chain": case["chain"], "doc": doc[:120].decode("latin-1"), "rc": res.rc} if mutated and len(ctx.samples) < 3 else None)


def sub_readers(ctx):
    ctx.hyp(reader_case(), lambda c: body_reader(ctx, c), ctx.n(5000, 200000), shrink_budget=150)


# fixed large documents: sizes were measured to finish within 3 s on the unchanged tree (the guard is 60 s)
def big_docs():
    D = collections.OrderedDict()
    D["1MiB-field"] = b"a,b\n" + b"x" * (1 << 20) + b",2\n"
    D["1MiB-quoted-field"] = b'a,b\n"' + (b"x" * 1023 + b"\n") * 1024 + b'",2\n'
    D["1e5-empty-lines"] = b"\n" * 100000
    D["2e4-lines-x"] = b"x\n" * 20000
    D["1e5-open-brackets"] = b"[" * 100000
    D["1e5-open-braces"] = b"{" * 100000
    D["1e5-quotes"] = b'"' * 100001
    D["1e5-close-brackets"] = b"]" * 100000
    D["nested-objects-1000"] = b'{"a":' * 1000 + b"1" + b"}" * 1000
    D["nested-arrays-1000-balanced"] = b'{"a":' + b"[" * 1000 + b"]" * 1000 + b"}"
    D["400-digit-numbers"] = b"a,b\n" + b"9" * 400 + b",-0." + b"1" * 400 + b"e-" + b"9" * 30 + b"\n"
    D["64KiB-NUL"] = b"\x00" * 65536
    D["64KiB-0xff"] = b"\xff" * 65536
    D["only-bom"] = b"\xef\xbb\xbf"
    D["empty"] = b""
    D["only-header"] = b"a,b,c\n"
    D["header-then-1e4-ragged"] = b"a,b,c\n" + b"1\n1,2,3,4\n" * 5000
    D["3000-fields"] = b",".join(b"k%d=%d" % (i, i) for i in range(3000)) + b"\n"
    D["2000-duplicate-keys"] = b"a=1," * 2000 + b"\n"
    D["duplicate-keys-in-csv-header"] = b"a,b,a,c,a,d,e,f,g,h,i,j\n" + b"1,2,3,4,5,6,7,8,9,10,11,12\n" * 600
    D["duplicate-keys-xtab-stanzas"] = (b"a 1\nb 2\na 3\n" + b"".join(b"k%d %d\n" % (i, i) for i in range(12)) + b"a 4\n\n") * 50
    D["line-of-65536-separators"] = b"," * 65536 + b"\n"
    D["yaml-deep-400"] = b"".join(b"  " * i + b"a:\n" for i in range(400)) + b"  " * 400 + b"b: 1\n"
    D["yaml-flow-deep-1000"] = b"a: " + b"[" * 1000 + b"]" * 1000 + b"\n"
    D["yaml-flow-unbalanced-1e5"] = b"a: " + b"[" * 100000 + b"\n"
    D["yaml-alias-bomb"] = b"a: &a [x,x,x,x,x,x,x,x,x]\nb: &b [*a,*a,*a,*a,*a,*a,*a,*a,*a]\nc: &c [*b,*b,*b,*b,*b,*b,*b,*b,*b]\nd: &d [*c,*c,*c,*c,*c,*c,*c,*c,*c]\ne: &e [*d,*d,*d,*d,*d,*d,*d,*d,*d]\nf: &f [*e,*e,*e,*e,*e,*e,*e,*e,*e]\ng: [*f,*f,*f,*f,*f,*f,*f,*f,*f]\n"
    D["cr-only-lines"] = b"a,b\r1,2\r3,4\r" * 1000
    D["backslash-at-eof"] = b"a\tb\n1\t2\\"
    D["unterminated-quote-1MiB"] = b'a,b\n1,"' + b"y" * (1 << 20)
    D["xtab-1e4-blank-stanzas"] = b"a 1\n\n\n" * 10000
    D["pprint-1e4-bars"] = b"+---+\n" * 10000
    D["65537-byte-line-no-newline"] = b"a=" + b"z" * 65535
    D["gzip-truncated"] = _gzip.compress(b"a,b\n1,2\n" * 1000, mtime=0)[:-7]
    D["gzip-bomb-32MiB"] = _gzip.compress(b"a=1,b=2\n" * (32 << 17), mtime=0)
    D["bz2-garbage-tail"] = _bz2.compress(b"a,b\n1,2\n") + b"garbage"
    D["zlib-truncated"] = _zlib.compress(b"a,b\n1,2\n" * 1000)[:40]
    return D


BIG_OPTS = [[], ["--allow-ragged-csv-input"], ["--lazy-quotes"], ["--records-per-batch", "1"], ["--implicit-csv-header"], ["--gzin"], ["--bz2in"], ["--zin"], ["--ifs", ";", "--ips", ":"], ["--repifs"], ["--no-dedupe-field-names"]]
BIG_FMTS = ["csv", "csvlite", "tsv", "json", "jsonl", "yaml", "dkvp", "dkvpx", "nidx", "xtab", "pprint", "pprint-barred", "markdown", "dcf", "recutils", "usv", "asv"]


_big_cache = {}


def big_jobs(ctx):
    if not _big_cache:
        _big_cache.update(big_docs())
    docs = _big_cache
    jobs = []
    for dn in docs:
        for f in BIG_FMTS:
            for oi, o in enumerate(BIG_OPTS):
                if ctx.quick and oi not in (0,) and not (oi in (5, 6, 7) and ("gz" in dn or "bz2" in dn or "zlib" in dn)) and not (oi == 10 and "duplicate" in dn):
                    continue
                if dn == "gzip-bomb-32MiB" and not (o == ["--gzin"] and f in ("dkvp", "nidx", "json")):
                    continue
                jobs.append((dn, f, o))
    return docs, jobs


def body_big(ctx, case, docs=None):
    if not _big_cache:
        _big_cache.update(big_docs())
    doc = _big_cache[case["doc_name"]]
    if case["doc_name"].startswith("gzip-bomb"):
        case = dict(case, chain=["count"])
    c = {"fmt": case["fmt"], "opts": [case["opts"]] if case["opts"] else [], "chain": case.get("chain", ["cat"]), "out": case.get("out", ["--ojson"]), "via": "file", "muts": [], "raw": None}
    res = run_reader_case(ctx, c, doc, timeout=60.0)
    out = judge_run(ctx, case, res, lambda t: run_reader_case(ctx, c, doc, timeout=t), "big document %s (%d bytes, measured < 3 s on the unchanged tree) under %s %s" % (case["doc_name"], len(doc), case["fmt"], " ".join(case["opts"])), 0)
    ctx.case(("big", case["doc_name"], case["fmt"], tuple(case["opts"])), True, labels=("outcome:" + out,))


def sub_big(ctx):
    docs, jobs = big_jobs(ctx)
    for i, (dn, f, o) in enumerate(jobs):
        if i % ctx.nshards != ctx.shard:
            continue
        case = {"doc_name": dn, "fmt": f, "opts": o}
        if dn in ("1MiB-field", "3000-fields", "header-then-1e4-ragged"):
            case["out"] = [["--ojson"], ["--opprint"], ["--oxtab"], ["--ocsv"]][i % 4]
            case["chain"] = [["cat"], ["sort", "-f", "a"], ["unsparsify"], ["summary"]][(i // 4) % 4]
        if not ctx.guard(body_big, ctx, case, docs):
            if len(ctx.violations) >= 5:
                return


SUBCHECKS += [
    Sub("readers_mutated_documents", sub_readers, body_reader, shards={"quick": 16, "thorough": 16}, cost=4,
        rule="21 reader configurations (csv csvlite tsv tsvlite usv asv json jsonl yaml dkvp dkvpx nidx xtab pprint barred-pprint markdown dcf recutils gzin bz2in zin) x 0-3 of 130 main-flag settings incl. hostile "
             "separator/regex/number values x 140 verb chains x 30 writer settings; documents = valid seeds under 0-4 structure-aware mutations, or short random bytes/text"),
    Sub("readers_big_documents", sub_big, body_big, shards={"quick": 16, "thorough": 16}, exhaustive=True, cost=2,
        rule="34 fixed large or deep documents (1 MiB fields, 10^5 unbalanced brackets/quotes/lines, 400-digit numbers, 64 KiB of NUL/0xff, YAML alias bomb, truncated and oversized compressed streams) x 17 readers x option sets"),
]


# --------------------------------------------------------------------------------------------
# 3. DSL text near the grammar

BASE_PROGRAMS = [
    '$y = $x + 1',
    '$z = $x . "abc" . $y; $w = $x * 2 ** 3 - -4 / 5 // 6 % 7',
    '$a = $x < 3 ? "lo" : $x < 6 ? "mid" : "hi"',
    '$b = $x =~ "^([0-9])(.*)$" ? "\\1:\\2" : "none"; $c = "ab" =~ "A(B)"i; $d = sub($y, "(b)(c)", "<\\2\\1>")',
    '@sum += $x; @count[$y] += 1; $s = @sum',
    '@m[$y][$x] = NR; @last = $*',
    '$* = mapsum($*, {"new": NR, "nf": NF}); unset $x',
    'unset $y; unset @nosuch; unset $*["x"]',
    '$[[1]] = "first"; $[[[2]]] = "second"',
    '${new field} = $x . "x"; $*["k" . NR] = NF',
    'if ($x > 2) {$big = true} elif ($x > 1) {$big = "maybe"} else {$big = false}',
    'for (k, v in $*) {$[k . "_copy"] = v}',
    'for (k in $*) {@keys[NR][k] = 1}',
    'for ((k1, k2), v in {"a": {"b": 1, "c": 2}, "d": {"e": 3}}) {$[k1 . k2] = v}',
    'for ((k1, k2, k3), v in {"a": {"b": {"c": 1}}}) {if (v == 1) {break} $never = 1}',
    'for (e in [1, 2, [3, 4], {"a": 5}]) {$t = typeof(e); if (is_map(e)) {continue} $last = e}',
    'm = {"a": 1, "b": {"c": [1, 2, {"d": 3}]}}; $v = m["b"]["c"][3]["d"]; $n = m["b"]["c"][-1]["d"]; $s = format_values(m)',
    'a = [1, 2, 3, 4, 5]; $p = a[2:3]; $q = a[-2:-1]; a[6] = 6; $r = a; $len = length(a)',
    's = "hello"; $p = s[2:3]; $q = substr(s, 0, 1); $r = strlen(s) . toupper(s)',
    'num x = 1; str s = "a"; int i = 2; float f = 3.5; bool b = true; map m = {}; arr a = []; var v = absent; funct g = func(a) {return a . "!"}; $o = g(s) . x . i . f . b',
    'func f(str s, int n): str {return s . n} $o = f("a", 1)',
    'func fact(n) {if (n <= 1) {return 1} return n * fact(n - 1)} $o = fact(5)',
    'subr p(s) {print "sub:" . s; if (s == "x") {return} emit {"s": s}} call p($x)',
    'begin {@first = ""; @n = 0} @n += 1; end {emit @n; emit @first; dump}',
    '$x > 2 {$flag = 1} NR == 1 {$firstrec = true} true {$t = 1} false {$f = 1}',
    'filter $x > 1; $kept = true',
    '$o = apply([1, 2, 3], func(e) {return e ** 2}); $p = select({"a": 1, "b": 2}, func(k, v) {return v > 1}); $q = reduce([1, 2, 3], func(acc, e) {return acc + e})',
    '$o = fold([1, 2, 3], func(acc, e) {return acc . e}, ""); $p = sort([5, 2, 3], func(a, b) {return b <=> a}); $q = any([1, 2], func(e) {return e == 2}); $r = every([1, 2], func(e) {return e > 0})',
    '$o = sort({"c": 1, "a": 3}, "r"); $p = sort([3, 1, 2], "nr"); $q = sort_by_key({"b": 1, "a": 2})',
    '@r[$y][$x] = $x; end {emit @r, "y", "x"; emitp @r, "y"; emit @r; emitp @r}',
    '@a[$y] = $x; @b[$y] = NR; end {emit (@a, @b), "y"; emitp (@a, @b), "y"; emitf @a}',
    '@c = NR; @d = $x; emitf @c, @d; emit1 {"a": NR}; emit mapdiff($*, {"x": 0}); emit @*; emitp @*',
    'emit > stderr, $*; emit > "/dev/null", mapsum({"a": 1}, $*); tee > "/dev/null", $*; print > stderr, "x"; printn > stdout, "y"; dump > "/dev/null", @*',
    'print; printn "a"; eprint "b"; eprintn "c"; print $x, $y; edump; dump @nosuch; dump {"a": [1, {"b": 2}]}',
    '$o = ENV["HOME"] . M_PI . M_E . NR . FNR . NF . FILENAME . FILENUM . IPS . IFS . IRS . OPS . OFS . ORS; ENV["NEW"] = "v"',
    '$o = $nosuch ?? "d"; $p = "" ??? "e"; $q = @nosuch ?? $x ?? 3; $r = asserting_not_null($x); $nosuch2 .= "a"; @cnt[1][2] ??= 5',
    '$o = 0xff + 1e3 + .5 + 5. + 1.e2 - 0o17 + 1E-2; $p = -0x10 . -0xF; $q = 7 // 2 . 7 % -2 . 7 .+ 2 . 1 << 3 . -8 >> 1 . -8 >>> 1 . 5 & 3 . 5 | 3 . 5 ^ 3 . ~5 . !true',
    '$o = "tab\\there" . "nl\\n" . "q\\"uote" . "back\\\\slash" . "uni\\u00e9" . "hex\\x41" . "dollar\\$" . "\\."',
    '$o = strptime("2023-01-01", "%Y-%m-%d"); $p = sec2gmt(0); $q = strftime(1.5, "%Y-%m-%dT%H:%M:%3SZ"); $r = splitax("a,b,c", ","); $s = format("{}:{}", 1); $t = unformat("<>;<>", "3;4.5")',
    '$o = true && false || true ^^ false; $p = 1 < 2 && 2 <= 2 && 3 > 2 && 3 >= 3 && 1 != 2 && 1 == 1; $q = "a" < "b"; $r = 1 <=> 2',
    '# comment only\n$o = 1 # trailing comment\n# another\n;;; $p = 2;;',
    'if (NR == 1) {if ($x > 0) {if ($y != "") {$deep = 1} else {$deep = 2}}}',
    'func f(a, b) {var c = a; if (b > 0) {var c = b; a = c} return a . c} $o = f(1, 2); $p = f(1, -2)',
    '@o[1] = "a"; @o[2][3] = "b"; unset @o[2][3]; $o = @o; @* = {"x": 1}; $p = @*; unset @*; unset all',
    '$*  = {"a": {"b": 1}, "c": [1, 2]}; $d = $a; unset $c',
    'k = "x"; $[k] = 9; @[k] = 8; $o = @x . $[[1]] . $[[[1]]]; $nf = NF',
    'all = 1; $o = is_present($x) . is_absent($nosuch) . is_empty("") . is_string("a") . typeof([]) . asserting_int(1) . typeof($*) . typeof(@*) . typeof(func(a) {return a})',
    'tee > $y . ".out.tmp", $*',
    'emit @sums, "a", "b"; emitp @sums, "a"; emit (@count, @sum), "a", "b"; emit @*; emit mapexcept($*, "a")',
    'case_x = 1; begin_y = 2; $o = case_x + begin_y; E = 3; $p = E; M_PI_2 = 4; $q = M_PI_2',
    'do {$c = 1} while (false); while (false) {$d = 1}; for (int i = 0; i < 3; i += 1) {$e = i}; for (;;) {break}',
    'func g(map m): map {m["new"] = 1; return m} @m = {"a": 1}; $o = g(@m); $p = @m; $q = json_encode(g({}))',
    '$o = strlen($x) > 0 ? splitnv($x, ",")[1] : "none"; $p = [1,2,3][2]; $q = {"a":{"b":7}}["a"]["b"]; $r = "abc"[1:2]',
    '$o = asserting_null(""); $p = is_nan(0/0) . is_inf(1/0); $q = 1/0; $r = -1/0; $s = 0x7fffffffffffffff + 1; $t = 5 ./ 0',
    '$o = $x .+ 1; $z ||= true; $w &&= false; $v ^^= true; $u <<= 1; $t >>= 1; $s >>>= 1; $r &= 1; $q |= 1; $p ^= 1; $n **= 2; $m //= 2; $l %= 2; $k /= 2; $j *= 2; $i -= 1',
]
DSL_TOKENS = ["all", "begin", "bool", "break", "call", "continue", "do", "dump", "edump", "elif", "else", "emit1", "emit", "emitf", "emitp", "end", "eprint", "eprintn", "false", "filter", "float",
              "for", "func", "funct", "if", "in", "int", "map", "num", "print", "printn", "return", "stderr", "stdout", "str", "subr", "tee", "true", "unset", "var", "while", "ENV", "FILENAME",
              "FILENUM", "FNR", "IFS", "IPS", "IRS", "M_E", "M_PI", "NF", "NR", "OFS", "OPS", "ORS", "arr", "any", "absent", "error", "emit1", "$x", "$y", "$*", "@*", "@v", "$[[1]]", "$[[[1]]]",
              "${a b}", "$1", "@1", "$", "@", "x", "f", "1", "0", "-1", "0x", "0xff", "0b", "1e", "1e5", "1.5.2", "9223372036854775808", "1_000", "99999999999999999999999", "1e999", '"s"', '""',
              '"\\1"', '"\\"', '"', "'", '"a"i', '"("', '"\\u"', '"\\x"', '"%d"', "(", ")", "{", "}", "[", "]", "[[", "]]", "[[[", "]]]", ";", ",", ":", "?", "??", "???", "?:", ".", "..", "+", "-", "*",
              "/", "//", "%", "**", ".+", ".-", ".*", "./", "<", "<=", ">", ">=", "==", "!=", "=~", "!=~", "<=>", "&&", "||", "^^", "!", "&", "|", "^", "~", "<<", ">>", ">>>", "=", "+=", ".=", "**=",
              "??=", "min=", "||=", "|", ">", ">>", "#", "\n", "\\", "$*[", "@[", "${", "}", "=>", "->", "::", "\x00", "\xff", "\xc3", "\u00e9", "\U0001F600", "func(a) {return a}", "func(", "{}", "[]",
              "[1:2]", "[:]", "[1:]", "[:2]", "[-1]", "[0]", '["a"]', "[[1,2]]", "E", "M_PI_2", "true {", "end {", "begin {", "} else {", "elif (", "in", "call s(1)", "return 1", "emit (", "emit @*", ", \"a\""]
_TOK_RE = re.compile(r'"(?:\\.|[^"\\])*"i?|\$\{[^}]*\}|\$\*|@\*|[$@]?[A-Za-z_][A-Za-z_0-9]*|\$\[\[\[|\$\[\[|\]\]\]|\]\]|0x[0-9a-fA-F]+|0b[01]+|\d+\.?\d*(?:[eE][-+]?\d+)?|\.\d+|'
                     r'>>>=|>>>|<=>|\*\*=|//=|<<=|>>=|\?\?\?=|\?\?=|\?\?\?|\|\|=|&&=|\^\^=|!=~|=~|\*\*|//|\.\+|\.-|\.\*|\./|<<|>>|<=|>=|==|!=|&&|\|\||\^\^|\?\?|\?:|[-+*/%&|^]=|\.=|#[^\n]*|\s+|.', re.S)


def dsl_tokens(p):
    return _TOK_RE.findall(p)


DEEP_SHAPES = [("(", ")", 3000), ("-", "", 3000), ("!", "", 3000), ("1 + ", "", 3000), ("abs(", ")", 3000), ("[", "]", 150), ('{"a":', "}", 150), ("f(", ")", 1000), ('"a" . ', "", 3000), ("~", "", 3000),
               ("true ? 1 : ", "", 2000), ("1 ?? ", "", 2000), ("x[", "]", 500), ("if (true) {", "}", 1000), ("for (k,v in $*) {", "}", 300), ("func(a) {return ", "}", 300), ("$*[", "]", 500), ('1 < ', "", 2000)]
DMUT = st.one_of(
    st.tuples(st.just("del"), st.integers(0, 10 ** 4)),
    st.tuples(st.just("dup"), st.integers(0, 10 ** 4)),
    st.tuples(st.just("swap"), st.integers(0, 10 ** 4)),
    st.tuples(st.just("rep"), st.integers(0, 10 ** 4), st.integers(0, len(DSL_TOKENS) - 1)),
    st.tuples(st.just("ins"), st.integers(0, 10 ** 4), st.integers(0, len(DSL_TOKENS) - 1)),
    st.tuples(st.just("trunc"), st.integers(0, 10 ** 4)),
    st.tuples(st.just("splice"), st.integers(0, 10 ** 4), st.integers(0, len(BASE_PROGRAMS) - 1), st.integers(0, 10 ** 4)),
    st.tuples(st.just("deep"), st.integers(0, 10 ** 4), st.integers(0, len(DEEP_SHAPES) - 1), st.sampled_from([2, 10, 100, 100000])),
    st.tuples(st.just("chars"), st.integers(0, 10 ** 4), st.integers(0, 10 ** 4)),
    st.tuples(st.just("bigtok"), st.integers(0, 10 ** 4), st.sampled_from(["9" * 400, "x" * 70000, '"' + "y" * 70000 + '"', "1." + "0" * 400 + "e" + "9" * 10, '"' + "\\" * 1001 + '"', "#" + "c" * 70000, "\n" * 20000, " " * 70000, "$" + "f" * 5000, '"' + "\\u00e9" * 5000 + '"'])),
)


def apply_dmut(toks, m):
    n = len(toks)
    op = m[0]
    i = m[1] % (n + 1)
    if op == "del":
        return toks[:i] + toks[i + 1:]
    if op == "dup":
        return toks[:i] + toks[i:i + 1] * 2 + toks[i + 1:]
    if op == "swap":
        return toks[:i] + toks[i + 1:i + 2] + toks[i:i + 1] + toks[i + 2:]
    if op == "rep":
        return toks[:i] + [DSL_TOKENS[m[2]]] + toks[i + 1:]
    if op == "ins":
        return toks[:i] + [" ", DSL_TOKENS[m[2]], " "] + toks[i:]
    if op == "trunc":
        return toks[:i]
    if op == "splice":
        other = dsl_tokens(BASE_PROGRAMS[m[2]])
        j = m[3] % (len(other) + 1)
        return toks[:i] + other[j:j + 12] + toks[i:]
    if op == "deep":
        o, c, cap = DEEP_SHAPES[m[2]]
        k = min(m[3], cap)
        # wrap the token at i (or insert a literal) in k levels
        inner = toks[i:i + 1] if i < n and toks[i].strip() and re.match(r'^[\w$@"]', toks[i]) else ["1"]
        return toks[:i] + [o * k] + inner + [c * k] + toks[i + 1:]
    if op == "chars":
        if not n:
            return toks
        t = toks[i % n]
        j = m[2] % (len(t) + 1)
        return toks[:i % n] + [t[:j] + t[j + 1:]] + toks[i % n + 1:]
    if op == "bigtok":
        return toks[:i] + [" ", m[2], " "] + toks[i:]
    return toks


DSL_MODES = [["put"], ["put"], ["put", "-q"], ["filter"], ["filter", "-x"], ["put", "-S"], ["put", "-x"], ["filter", "-q"], ["put", "-s", "v=1", "-s", "w=abc"], ["put", "-v"], ["put", "-X"], ["put", "-d"],
             ["put", "-D"], ["filter", "-v"], ["put", "-f"], ["filter", "-f"], ["put", "-e"], ["put", "-n"], ["put", "-w"], ["put", "-z"], ["put", "-q", "-o", "json"]]
DSL_INPUT = b"x=3,y=abc,z=\nx=1,y=,z=0x1F\nx=-2.5,y=abc,w=7\nq=1\n"


@st.composite
def dsl_case(draw):
    c = {"base": draw(st.integers(0, len(BASE_PROGRAMS) - 1)), "muts": [list(m) for m in draw(st.lists(DMUT, min_size=0, max_size=4))], "mode": draw(st.sampled_from(DSL_MODES)),
         "n": draw(st.booleans()), "raw": None}
    if draw(st.integers(0, 9)) == 0:
        c["raw"] = draw(st.lists(st.sampled_from(DSL_TOKENS), max_size=12).map(" ".join))
    return c


def build_prog(case):
    if case.get("prog") is not None:
        return case["prog"].encode("latin-1")
    if case.get("raw") is not None:
        return case["raw"].encode("utf-8", "surrogateescape") if isinstance(case["raw"], str) else case["raw"]
    toks = dsl_tokens(BASE_PROGRAMS[case["base"]])
    for m in case["muts"]:
        toks = apply_dmut(toks, tuple(m))
    p = "".join(toks)
    return p.encode("utf-8", "replace") if "\xff" not in p and "\xc3" not in p else p.encode("latin-1", "replace")


_LOOPY = re.compile(rb"\b(while|do|func|subr|call)\b|for\s*\([^)]*;|(\bfor\b.*){5}", re.S)   # five or more for-loops may be nested: 4 fields ^ depth iterations


def run_dsl_case(ctx, case, prog, timeout):
    mode = list(case["mode"])
    d = vrun.newdir("d")
    path = os.path.join(d, "p.mlr")
    try:
        if mode[-1] in ("-f",) or len(prog) > 100000 or b"\x00" in prog:
            with open(path, "wb") as f:
                f.write(prog)
            if mode[-1] != "-f":
                mode.append("-f")
            argv = mode + [path]
        elif mode[-1] == "-e":
            argv = mode + [prog, "-e", b"$e2 = 1"]
        else:
            argv = mode + [prog]
        pre = ["-n"] if case["n"] else []
        return ctx.mlr(pre + ["--ojson"] + argv, stdin=DSL_INPUT, timeout=timeout, env_extra=ENV, as_limit=AS_LIMIT, cap=128 << 20, cwd=d)
    finally:
        __import__("shutil").rmtree(d, ignore_errors=True)


def body_dsl(ctx, case):
    prog = build_prog(case)
    tmo = guard_for(ctx, 25.0)
    res = run_dsl_case(ctx, case, prog, tmo)
    loopy = bool(_LOOPY.search(prog))
    fc = case
    if crashed(res) or res.timed_out or res.capped or bad_exit(res):
        fc = dict(case)
        if len(prog) <= 1 << 17:
            fc["prog"] = prog.decode("latin-1")
    what = "DSL %s `%s`" % (" ".join(case["mode"]), prog[:300].decode("utf-8", "replace"))
    if (res.timed_out or res.capped) and loopy:
        ctx.label("timeout-in-a-program-with-loops-or-recursion (not judged)")
        out = "loop"
    else:
        out = judge_run(ctx, fc, res, lambda t: run_dsl_case(ctx, case, prog, t), what, min(len(prog), HANG_JUDGED_MAX_INPUT))
    parsed = res.rc == 0 or (b"parse error" not in res.err and b"cannot parse" not in res.err and b"lexer" not in res.err)
    ctx.case(("d", json.dumps(case, sort_keys=True)), bool(case["muts"]) or case.get("raw") is not None,
             labels=("outcome:" + out, "parses" if parsed else "rejected-by-parser") + tuple("mut:" + m[0] for m in case["muts"][:4]),
             sample={"prog": prog[:200].decode("utf-8", "replace"), "mode": case["mode"], "rc": res.rc} if case["muts"] and len(ctx.samples) < 3 else None)


def sub_dsl(ctx):
    ctx.hyp(dsl_case(), lambda c: body_dsl(ctx, c), ctx.n(4000, 150000), shrink_budget=150)


SUBCHECKS += [
    Sub("dsl_text_near_grammar", sub_dsl, body_dsl, shards={"quick": 16, "thorough": 16}, cost=4,
        rule="57 base programs covering every statement and expression form x 0-4 token-level mutations (delete, duplicate, swap, replace/insert from a 230-token dictionary of keywords, operators, "
             "malformed literals and raw bytes, truncate, splice from another program, nest 2-3000 levels deep in 18 shapes, delete a character, oversized tokens) x 21 put/filter modes; "
             "timeouts of programs that contain while/do/3-part-for/func/subr are not judged (a programmed loop is not a Miller hang)"),
]


# --------------------------------------------------------------------------------------------
# 4. verbs x hostile option values

HOSTILE_VALUES = ["", "0", "-1", "1", "2", "3", "99999999999999999999", "-9223372036854775808", "100000", "x", "a", "a,b", "nosuch", "a,a", ",", "a,,b", "(", "[", "*", "\\", "%", "%d", "%s%s%s", "%08.3lf",
                  "%lld", "%5", "1.5", "1e3", "-", "--", "é", "a b", " ", "^(", "^.*$", "(a)|(b)", "x" * 5000, "1,2,3", "p50", "p101", "p-1", "p50.5", "mean", "nosuchacc", "delta", "shift_lag",
                  "ewma", "slwin_2_2", "slwin_-1_x", "first,last,count,sum,mode,antimode,minlen,maxlen,null_count,distinct_count,median", "0x10", "true", "/dev/null", "/nonexistent/x", ".", "1,1",
                  "0.0", "-0.5", "1e400", "NaN", "Inf", "a:b", "a=b", "\t", "\\t", "tab", "comma", "ascii_esc", "b,a", "y,x", "x,y", "x,x", "1,x", "^x$,y", "^(.)$,\\1\\1", "\"a\"i", "\\.", "\\1", "\\9"]
VERB_INPUT = b"a=1,b=2,x=3,y=abc\na=4,b=,x=0x1F,y=abc\na=1,b=7,x=-2.5,y=\nq=1\na=1,b=2,x=3,y=abc\n"
_verb_cache = {}


def verb_table(ctx):
    if "t" not in _verb_cache:
        names = ctx.mlr(["help", "list-verbs"]).out.decode().split()
        tab = collections.OrderedDict()
        for v in names:
            u = ctx.mlr(["help", "verb", v]).out.decode("utf-8", "replace")
            flags = []
            for m in re.finditer(r"(?m)^ {0,2}(-{1,2}[A-Za-z0-9][-A-Za-z0-9_]*)((?:\|-{1,2}[-\w]+)*)(?: or (-{1,2}[-\w]+))?( \{[^}]*\}| <[^>]*>)?( \{[^}]*\})?", u):
                if m.group(1) in ("-h", "--help"):
                    continue
                nargs = (1 if m.group(4) else 0) + (1 if m.group(5) else 0)
                flags.append((m.group(1), nargs))
            bases = [c for c in CHAINS if c[0] == v and "then" not in c]
            if not bases:
                bases = [[v]]
            tab[v] = {"flags": flags, "bases": bases}
        _verb_cache["t"] = tab
    return _verb_cache["t"]


VEDIT = st.one_of(
    st.tuples(st.just("setval"), st.integers(0, 99), st.integers(0, len(HOSTILE_VALUES) - 1)),     # replace the value after an existing flag / a positional
    st.tuples(st.just("addflag"), st.integers(0, 99), st.integers(0, len(HOSTILE_VALUES) - 1)),    # add a flag from the usage text (with a hostile value if it takes one)
    st.tuples(st.just("drop"), st.integers(0, 99), st.integers(0, 0)),
    st.tuples(st.just("dupflag"), st.integers(0, 99), st.integers(0, 0)),
    st.tuples(st.just("unknown"), st.integers(0, 99), st.integers(0, len(HOSTILE_VALUES) - 1)),
)


@st.composite
def verb_case(draw):
    return {"verb": draw(st.integers(0, 199)), "base": draw(st.integers(0, 9)), "edits": [list(e) for e in draw(st.lists(VEDIT, min_size=1, max_size=3))],
            "empty": draw(st.integers(0, 4)) == 0, "io": draw(st.sampled_from([[], ["--ojson"], ["--icsv", "--ifs", ";", "--opprint"], ["--ixtab", "--oxtab"], ["--c2j"], ["--ojson", "--records-per-batch", "1"]])),
            "then": draw(st.integers(0, 5)) == 0}


def build_verb_argv(ctx, case):
    if case.get("argv") is not None:
        return case["argv"]
    tab = verb_table(ctx)
    names = list(tab)
    v = names[case["verb"] % len(names)]
    info = tab[v]
    argv = list(info["bases"][case["base"] % len(info["bases"])])
    for kind, i, j in case["edits"]:
        val = HOSTILE_VALUES[j % len(HOSTILE_VALUES)]
        if kind == "setval" and len(argv) > 1:
            k = 1 + i % (len(argv) - 1)
            argv[k] = val
        elif kind == "addflag" and info["flags"]:
            f, n = info["flags"][i % len(info["flags"])]
            argv += [f] + [val] * n
        elif kind == "drop" and len(argv) > 1:
            k = 1 + i % (len(argv) - 1)
            del argv[k]
        elif kind == "dupflag" and info["flags"]:
            f, n = info["flags"][i % len(info["flags"])]
            argv += ([f] + ["a"] * n) * 2
        elif kind == "unknown":
            argv += ["--nosuchflag", val]
    if case["then"]:
        argv += ["then", "put", "$nr = NR", "then", v]
    return argv


# legitimately long-running or huge-output argument values are excluded by construction
def verb_excluded(argv):
    v = argv[0]
    if v in ("seqgen", "repeat", "fill-down", "bootstrap", "sample", "split", "tee", "case", "bar", "histogram", "step", "merge-fields") and any(re.match(r"^-?\d{6,}$|^1e\d", a) for a in argv[1:]):
        return "count-like argument above 10^5"
    if v == "seqgen" and not ("--stop" in argv or "-t" in argv):
        return "seqgen without a stop value is endless by design"
    if v in ("tee", "split") and any(a.startswith("/") and not a.startswith("/dev/null") and not a.startswith("/nonexistent") for a in argv[1:]):
        return "writes outside the scratch directory"
    return None


def run_verb_case(ctx, case, argv, timeout):
    d = vrun.newdir("v")
    try:
        return ctx.mlr(case["io"] + argv, stdin=b"" if case["empty"] else VERB_INPUT, timeout=timeout, env_extra=ENV, as_limit=AS_LIMIT, cap=128 << 20, cwd=d)
    finally:
        __import__("shutil").rmtree(d, ignore_errors=True)


def body_verb(ctx, case):
    argv = build_verb_argv(ctx, case)
    why = verb_excluded(argv)
    if why:
        ctx.excluded[why] += 1
        return
    tmo = guard_for(ctx, 25.0)
    res = run_verb_case(ctx, case, argv, tmo)
    fc = case
    if crashed(res) or res.timed_out or res.capped or bad_exit(res):
        fc = dict(case, argv=argv)
    out = judge_run(ctx, fc, res, lambda t: run_verb_case(ctx, case, argv, t), "verb `%s` on %s input" % (" ".join(a if len(a) < 60 else a[:60] + "..." for a in argv), "empty" if case["empty"] else "tiny"), len(VERB_INPUT))
    ctx.case(("v", json.dumps(argv), case["empty"], json.dumps(case["io"])), True, labels=("verb:" + argv[0], "outcome:" + out),
             sample={"argv": argv, "rc": res.rc, "err": res.err[:100].decode("utf-8", "replace")} if len(ctx.samples) < 3 else None)


def sub_verbs(ctx):
    ctx.hyp(verb_case(), lambda c: body_verb(ctx, c), ctx.n(2000, 120000), shrink_budget=120)


def sub_verbs_grid(ctx):
    """Every verb x every documented flag x every hostile value, one edit at a time on each valid baseline (exhaustive in thorough, every 20th cell in quick)."""
    tab = verb_table(ctx)
    n = 0
    for vi, (v, info) in enumerate(tab.items()):
        for bi, base in enumerate(info["bases"][:3]):
            cells = [("none", 0, 0)]
            for fi in range(len(info["flags"])):
                for j in range(len(HOSTILE_VALUES)):
                    cells.append(("addflag", fi, j))
            for k in range(max(0, len(base) - 1)):
                for j in range(len(HOSTILE_VALUES)):
                    cells.append(("setval", k, j))
                cells.append(("drop", k, 0))
            for cell in cells:
                n += 1
                if n % ctx.nshards != ctx.shard or (ctx.quick and (n // ctx.nshards) % 20 != 0):
                    continue
                case = {"verb": vi, "base": bi, "edits": [list(cell)] if cell[0] != "none" else [], "empty": (n // 3) % 4 == 0, "io": [[], ["--ojson"], ["--icsv", "--ifs", ";", "--opprint"]][n % 3], "then": False}
                if not ctx.guard(body_verb, ctx, case) and len(ctx.violations) >= 5:
                    return


SUBCHECKS += [
    Sub("verbs_hostile_arguments", sub_verbs, body_verb, shards={"quick": 8, "thorough": 16}, cost=3,
        rule="every verb of `mlr help list-verbs`: a valid baseline invocation under 1-3 edits (set an argument to one of 80 hostile values, add a flag parsed from the verb's usage text with a hostile value, "
             "drop an argument, repeat a flag, unknown flag), on a 5-record and on an empty input, under 6 I/O format settings, optionally chained after itself"),
    Sub("verbs_flag_value_grid", sub_verbs_grid, body_verb, shards={"quick": 16, "thorough": 16}, cost=3, exhaustive=True,
        rule="verb x documented flag x hostile value, and verb x baseline argument position x hostile value, one edit at a time"),
]


# --------------------------------------------------------------------------------------------
# 5. nesting beyond what the Go stack can hold (fixed cases; regression for the depth limits)

DEEP_DSL = [("paren", "x = " + "(" * 1200000 + "1" + ")" * 1200000), ("unary-minus", "x = " + "-" * 1200000 + "1"), ("not", "x = " + "!" * 1200000 + "true"), ("plus-chain", "x = " + "1+" * 1200000 + "1"),
            ("dot-chain", "x = " + '"a".' * 1200000 + '"a"'), ("call", "x = " + "abs(" * 1200000 + "1" + ")" * 1200000), ("if-nest", "if (true) {" * 1200000 + "x=1" + "}" * 1200000),
            ("ternary-chain", "x = " + "true ? 1 : " * 600000 + "2"), ("index-chain", "x = y" + "[1]" * 1200000), ("paren-150000-accepted-or-rejected", "x = " + "(" * 150000 + "1" + ")" * 150000)]
DEEP_JSON = [("open-brackets-5e6", b"[" * 5000000), ("open-braces-key-2e4", b'{"a":' * 20000), ("balanced-arrays-1.5e5", b'{"a":' + b"[" * 150000 + b"]" * 150000 + b"}"),
             ("jsonl-open-brackets-5e6", b"[" * 5000000)]


def body_deep(ctx, case):
    name = case["name"]
    d = vrun.newdir("z")
    try:
        if case["kind"] == "dsl":
            prog = dict(DEEP_DSL)[name]
            path = os.path.join(d, "p.mlr")
            with open(path, "w") as f:
                f.write("end{" + prog + "}")
            run = lambda t: ctx.mlr(["-n", "put", "-f", path], timeout=t, env_extra=ENV, as_limit=AS_LIMIT, cap=64 << 20)
        else:
            doc = dict(DEEP_JSON)[name]
            path = os.path.join(d, "in.json")
            with open(path, "wb") as f:
                f.write(doc)
            run = lambda t: ctx.mlr(["--ijsonl" if name.startswith("jsonl") else "--ijson", "--ojson", "--no-jvstack", "put", "-q", "end{print NR}", path], timeout=t, env_extra=ENV, as_limit=AS_LIMIT, cap=64 << 20)
        res = run(90.0)
        out = judge_run(ctx, case, res, run, "deep nesting %s" % name, 0)
        ctx.case(("deep", name), True, labels=("outcome:" + out,))
    finally:
        __import__("shutil").rmtree(d, ignore_errors=True)


def sub_deep(ctx):
    jobs = [{"kind": "dsl", "name": n} for n, _ in DEEP_DSL] + [{"kind": "json", "name": n} for n, _ in DEEP_JSON]
    for i, case in enumerate(jobs):
        if i % ctx.nshards == ctx.shard:
            ctx.guard(body_deep, ctx, case)


SUBCHECKS += [
    Sub("nesting_beyond_the_stack", sub_deep, body_deep, shards={"quick": 14, "thorough": 14}, exhaustive=True, cost=2,
        rule="10 DSL shapes nested 150000-1200000 deep and 4 JSON documents nested up to 5000000 deep: rejected with an mlr: error or evaluated, never a Go stack-overflow abort"),
]


# --------------------------------------------------------------------------------------------
# 6. coverage-guided in-process fuzzing (thorough tier only): /verif/fuzz, Go native fuzzing

FUZZ_TARGETS = ["FuzzBIF1", "FuzzBIF2", "FuzzBIF3", "FuzzInfer", "FuzzJSON", "FuzzStrptime", "FuzzUnbackslashAndRegex"]


def _go_string_literals(path):
    """Arguments of a saved Go fuzz input file (`go test fuzz v1` format) as Python bytes / ints."""
    import ast
    out = []
    with open(path, "r", encoding="utf-8", errors="surrogateescape") as f:
        lines = f.read().split("\n")[1:]
    for ln in lines:
        ln = ln.strip()
        m = re.match(r"^(string|\[\]byte)\((.*)\)$", ln, re.S)
        if m:
            lit = m.group(2)
            try:
                # Go interpreted string literals are close enough to Python bytes literals (\x, \n, \t, \\, \", \u are handled below)
                val = ast.literal_eval("b" + lit) if "\\u" not in lit and "\\U" not in lit and all(ord(c) < 128 for c in lit) else ast.literal_eval(lit).encode("utf-8", "surrogateescape")
            except Exception:
                val = lit.encode("utf-8", "surrogateescape")
            out.append(val)
            continue
        m = re.match(r"^u?int\d*\((\d+)\)$", ln)
        if m:
            out.append(int(m.group(1)))
    return out


def dsl_literal(b):
    """bytes -> a DSL string literal denoting them (printable ASCII kept, the rest as \\xHH)"""
    out = []
    for c in b:
        ch = chr(c)
        if ch == '"' or ch == "\\":
            out.append("\\" + ch)
        elif 32 <= c < 127:
            out.append(ch)
        else:
            out.append("\\x%02x" % c)
    return '"' + "".join(out) + '"'


def _arg_expr(b):
    """the DSL expression closest to fuzz_test.go's decodeArg(b)"""
    if not b:
        return "$nosuch"
    k, rest = b[0] % 8, b[1:]
    if k in (0, 7):
        t = rest.strip() if k == 7 else rest
        try:
            s = t.decode("ascii")
            if re.match(r"^-?(0|[1-9][0-9]*)(\.[0-9]+)?([eE][-+]?[0-9]+)?$", s):
                return s
        except UnicodeDecodeError:
            pass
        return dsl_literal(t)
    if k == 1:
        return dsl_literal(rest)
    if k == 2:
        try:
            json.loads(rest.decode("utf-8"))
            return "json_decode(%s)" % dsl_literal(rest)
        except Exception:
            return dsl_literal(rest)
    if k == 3:
        return "true" if len(rest) % 2 == 0 else "false"
    if k == 4:
        return str(len(rest) - 3)
    if k == 5:
        return '(1 + "q")'
    return "$nosuch"


def cli_confirmations(ctx, target, args, bif_tables):
    """CLI invocations that feed the crashing arguments to the same code through the mlr command line: list of (argv, stdin)."""
    out = []
    try:
        if target == "FuzzUnbackslashAndRegex":
            s = args[0]
            arg = s.decode("utf-8", "surrogateescape")
            if "\x00" not in arg:
                out += [(["cut", "-r", "-f", arg], b"a=1\n"), (["rename", "-r", arg + ",x"], b"a=1\n"), (["having-fields", "--any-defined", arg], b"a=1\n"), (["grep", arg], b"a=1\n")]
            lit = dsl_literal(s)
            out += [(["-n", "put", 'end{print sub("abcabc", %s, "<\\1>"); print "abc" =~ %s; print gsub("abc", %s, "x"); print regextract_or_else("abc", %s, "no"); print splitax("a,b", %s)}' % (lit, lit, lit, lit, lit)], b"")]
        elif target == "FuzzStrptime":
            a, b = dsl_literal(args[0]), dsl_literal(args[1])
            out += [(["-n", "put", 'end{print strptime(%s, %s); print strptime_local(%s, %s, "Asia/Tokyo"); print strpntime(%s, %s)}' % (a, b, a, b, a, b)], b"")]
        elif target == "FuzzJSON":
            out += [(["--ijson", "--ojson", "cat"], args[0]), (["--ijson", "--ojsonl", "put", "$new = json_encode($*)"], args[0]), (["--ijsonl", "--oxtab", "cat"], args[0])]
        elif target == "FuzzInfer":
            s = args[0]
            if b"\n" not in s and b"\t" not in s:
                out += [(["--inidx", "--ifs", "tab", "--ojson", "put", "$y = $1 . \"\"; $z = $1 + 1"], s + b"\n")]
        elif target in ("FuzzBIF1", "FuzzBIF2", "FuzzBIF3"):
            n = int(target[-1])
            table = bif_tables[n]
            name = table[args[0] % len(table)][4:]
            exprs = [_arg_expr(a) for a in args[1:1 + n]]
            alias = {"plus_binary": "+", "minus_binary": "-", "times": "*", "divide": "/", "int_divide": "//", "modulus": "%", "pow": "**", "dot": ".", "dot_plus": ".+", "dot_minus": ".-",
                     "dot_times": ".*", "dot_divide": "./", "bitwise_and": "&", "bitwise_or": "|", "bitwise_xor": "^", "left_shift": "<<", "signed_right_shift": ">>", "unsigned_right_shift": ">>>",
                     "equals": "==", "not_equals": "!=", "greater_than": ">", "greater_than_or_equals": ">=", "less_than": "<", "less_than_or_equals": "<=", "cmp": "<=>", "logical_XOR": "^^",
                     "absent_coalesce_binary": "??", "absent_empty_coalesce_binary": "???", "min_binary": "min", "max_binary": "max", "logical_NOT": "!", "bitwise_NOT": "~", "minus_unary": "-", "plus_unary": "+"}
            op = alias.get(name, name)
            if re.match(r"^[a-z_0-9]+$", op):
                e = "%s(%s)" % (op, ", ".join(exprs))
            elif n == 1:
                e = "%s (%s)" % (op, exprs[0])
            else:
                e = "(%s) %s (%s)" % (exprs[0], op, exprs[1])
            out += [(["-n", "put", "end{print typeof(%s)}" % e], b""), (["--ijson", "--ojson", "put", "$o = %s" % e], b'{"x":1}')]
    except Exception as e:   # a crasher whose arguments cannot be mapped to a command line stays unconfirmed
        ctx.note("cannot build a CLI confirmation for %s: %s" % (target, e))
    return out


def replay_cli(ctx, case):
    argv = case["argv"]
    res = ctx.mlr(argv, stdin=case.get("stdin", "").encode("latin-1"), timeout=30, env_extra=ENV, as_limit=AS_LIMIT)
    ctx.case(("cli", json.dumps(argv)), True)
    if crashed(res) or res.timed_out:
        ctx.fail(case, "Go crash or hang (found by in-process fuzzing, confirmed through the command line): mlr %s -> %s" % (" ".join(argv)[:300], res.err[:200].decode("utf-8", "replace")))


def sub_native_fuzz(ctx):
    if ctx.quick:
        ctx.note("native fuzzing runs in the thorough tier only")
        return
    import shutil
    import subprocess
    from vlib import build as vbuild
    repo = os.environ.get("VERIF_REPO", "/repo")
    src = os.path.join(os.path.dirname(os.path.dirname(os.path.abspath(__file__))), "fuzz")
    work = os.path.join(vrun.scratch(), "fuzzmod")
    shutil.rmtree(work, ignore_errors=True)
    os.makedirs(work)
    shutil.copy(os.path.join(src, "fuzz_test.go"), work)
    if os.path.isdir(os.path.join(src, "testdata")):
        shutil.copytree(os.path.join(src, "testdata"), os.path.join(work, "testdata"))
    with open(os.path.join(work, "go.mod"), "w") as f:
        f.write("module verif/fuzz\n\ngo 1.25.0\n\nrequire github.com/johnkerl/miller/v6 v6.0.0\n\nreplace github.com/johnkerl/miller/v6 => %s\n" % repo)
    shutil.copy(os.path.join(repo, "go.sum"), work)
    env = vbuild.go_env()
    env["VERIF_REPO"] = repo
    gen = subprocess.run(["python3", os.path.join(os.path.dirname(src), "tools", "gen_fuzz_bifs.py"), os.path.join(work, "bifs_gen_test.go")], env=env, stdout=subprocess.PIPE, stderr=subprocess.STDOUT)
    if gen.returncode != 0:
        raise RuntimeError("gen_fuzz_bifs failed: %s" % gen.stdout[-500:])
    tables = {}
    gsrc = open(os.path.join(work, "bifs_gen_test.go")).read()
    for n in (1, 2, 3):
        blk = gsrc[gsrc.index("var bifs%d" % n):]
        blk = blk[:blk.index("\n}\n")]
        tables[n] = re.findall(r'\{"(BIF_\w+)"', blk)
    targets = [t for i, t in enumerate(FUZZ_TARGETS) if i % ctx.nshards == ctx.shard]
    budget = int(os.environ.get("VERIF_FUZZ_SECONDS", "75"))
    for t in targets:
        # regression: saved inputs first (plain `go test -run`), then the campaign
        cmd = [vbuild.go_bin(), "test", "-run", "^$", "-fuzz", "^%s$" % t, "-fuzztime", "%ds" % budget, "-parallel", str(max(2, 16 // max(1, len(FUZZ_TARGETS) // ctx.nshards + 1))), "."]
        try:
            p = subprocess.run(cmd, cwd=work, env=env, stdout=subprocess.PIPE, stderr=subprocess.STDOUT, timeout=budget + 900)
        except subprocess.TimeoutExpired:
            ctx.inconclusive += 1
            ctx.note("%s: go test did not finish" % t)
            continue
        out = p.stdout.decode("utf-8", "replace")
        execs = [int(x) for x in re.findall(r"execs: (\d+)", out)]
        n_exec = max(execs) if execs else 0
        ctx.case(("fuzz", t), True, labels=("target:" + t, "execs:%d" % n_exec), count=max(1, n_exec), sample={"target": t, "executions": n_exec, "seconds": budget} if len(ctx.samples) < 4 else None)
        if p.returncode == 0:
            continue
        m = re.search(r"Failing input written to (testdata/fuzz/\S+)", out)
        if not m:
            if "build failed" in out or "cannot find" in out or "no required module" in out:
                raise RuntimeError("fuzz module does not build: %s" % out[-1500:])
            ctx.inconclusive += 1
            ctx.note("%s failed without a saved input: %s" % (t, out[-400:]))
            continue
        crasher = os.path.join(work, m.group(1))
        args = _go_string_literals(crasher)
        head = re.search(r"(panic: [^\n]*|--- FAIL[^\n]*\n\s+[^\n]*)", out)
        confirmed = False
        for argv, stdin in cli_confirmations(ctx, t, args, tables):
            try:
                res = ctx.mlr(argv, stdin=stdin, timeout=30, env_extra=ENV, as_limit=AS_LIMIT)
            except (ValueError, OSError):
                continue     # e.g. NUL byte in an argument
            if crashed(res) or res.timed_out:
                confirmed = True
                ctx.guard(ctx.fail, {"kind": "cli", "argv": argv, "stdin": stdin.decode("latin-1"), "fuzz_target": t},
                          "found by in-process fuzzing (%s: %s), confirmed through the command line: mlr %s -> %s" % (
                              t, head.group(1)[:160] if head else "", " ".join(argv)[:300], (res.err[:160].decode("utf-8", "replace") if not res.timed_out else "no termination")))
                break
        if not confirmed:
            keep = os.path.join(os.path.dirname(src), "replays", "C18")
            os.makedirs(keep, exist_ok=True)
            dst = os.path.join(keep, "unconfirmed-%s-%s" % (t, os.path.basename(crasher)))
            shutil.copy(crasher, dst)
            ctx.label("in-process failure not reproduced through the command line")
            ctx.note("%s: in-process failure (%s) with input %s not reproduced through the command line: kept as %s, not a violation" % (
                t, head.group(1)[:200] if head else out[-200:], [a[:60] if isinstance(a, bytes) else a for a in args], dst))
    shutil.rmtree(work, ignore_errors=True)


def replay_any(ctx, case):
    if case.get("kind") == "cli":
        return replay_cli(ctx, case)
    return replay_item(ctx, case)


SUBCHECKS += [
    Sub("native_fuzz_in_process", sub_native_fuzz, replay_cli, shards={"quick": 1, "thorough": 4}, cost=6,
        rule="thorough tier only: Go native coverage-guided fuzzing (/verif/fuzz, module replaced by the current tree) of 177 built-in functions with arguments decoded from fuzz bytes into ints/floats/strings/"
             "JSON collections/booleans/error/absent, number inference round-trip, JSON decode-encode-decode stability, strptime, string-literal unbackslashing and Miller regex compilation; "
             "every in-process failure is re-run through the mlr command line and only a reproduced crash or hang is a violation; evaluations = fuzz executions"),
]
