"""C04 - output independent of batching and scheduling; termination; tail -f contract."""
import json
import os
import select
import shutil
import subprocess
import time

from hypothesis import strategies as st

from vlib.core import Sub
from vlib import run as vrun

LEVEL = "exploration"
NEEDS_VERIF_BUILD = True
RULE = ("Hypothesis: (stream, chain of 1-3 verbs from ~55 variants incl. streaming, non-streaming, early-exit, print/emit/tee, failing puts, randomized "
        "verbs under --seed, joins with faulty left files, multi-file input, 3-13 fields) x 9-11 configurations (--records-per-batch in {1,2,3,8,N-1,N,N+1,500}, "
        "--hash-records/--no-hash-records, --nr-progress-mod, GOMAXPROCS 1/2/4/16, seeded schedule perturbation with the -tags verif build): exit status "
        "identical across configurations, stdout identical for successful runs; endless producers with early-exit verbs must terminate by themselves; "
        "tail -f state machine: each input line's output is readable before the next line is written; non-trivial = the input spans >=2 batches at the "
        "smallest batch size and the chain has >=2 verbs or an early-exit/non-streaming verb; for tail -f >=3 records delivered one at a time")
ASSUMPTIONS = ["interleavings are sampled, not enumerated", "a hang must reproduce in 2 of 3 runs at 20 s (normal run time < 0.1 s) before it is reported"]

VERBS = [["cat"], ["cat", "-n", "-g", "a"], ["head", "-n", "2"], ["head", "-n", "1", "-g", "a"], ["head", "-n", "3", "then", "head", "-n", "1"], ["tail", "-n", "2"], ["tac"], ["sort", "-f", "a", "-nr", "i"],
         ["count", "-g", "a"], ["stats1", "-a", "sum,count,p50", "-f", "i", "-g", "a"], ["step", "-a", "rsum,delta,shift_lead", "-f", "i", "-g", "a"], ["cut", "-f", "a,i"], ["unsparsify"], ["group-by", "a"],
         ["fill-down", "-a", "-f", "y"], ["put", '$z = NR . ":" . $i; print "P" . NR'], ["put", "-q", '@s[$a] = $i; emit1 {"nr":NR}; end{emit @s,"a"}'], ["filter", "$i > 3"], ["uniq", "-g", "a", "-c"],
         ["decimate", "-n", "2"], ["nest", "--ivar", ";", "-f", "x"], ["top", "-f", "i", "-g", "a", "-a"], ["count-similar", "-g", "a"], ["sec2gmt", "i"], ["nothing"],
         ["seqgen", "--stop", "50", "then", "head", "-n", "3"], ["tee", "/dev/null"], ["tee", "/dev/null", "then", "head", "-n", "1"], ["put", "int q = $i; $w = q"], ["put", "$w = asserting_int($x)"],
         ["rename", "a,t"], ["rename", "a,t,x,a"], ["rename", "i,j"], ["put", "$a = \"new\""], ["put", "$t = $a . \"!\""], ["cut", "-x", "-f", "a"], ["reorder", "-e", "-f", "a"], ["sort-within-records"],
         ["put", "$[[1]] = \"first\""], ["head", "-n", "1", "-g", "t"], ["sort", "-f", "t"], ["shuffle"], ["bootstrap"], ["sample", "-k", "2", "-g", "a"], ["put", "$u = urandint(1, 100)"],
         ["put", "-q", "tee > \"/dev/null\", $*; emit mapsum($*, {\"n\": NR})"], ["put", "end{emit1 {\"end_nr\": NR}}"], ["merge-fields", "-a", "sum", "-f", "i,f01", "-o", "m"], ["fraction", "-f", "i"],
         ["JOIN-GOOD"], ["JOIN-BADLAST"], ["JOIN-MISSING"], ["split-lines-placeholder"], ["count-distinct", "-f", "a", "then", "put", "$k = NR"], ["cat", "-N", "idx", "then", "tac", "then", "head", "-n", "2"]]
VERBS = [v for v in VERBS if v != ["split-lines-placeholder"]]


@st.composite
def case_strategy(draw):
    n = draw(st.sampled_from([0, 1, 2, 3, 4, 5, 7, 8, 9, 15, 16, 17, 40]))
    wide = draw(st.integers(0, 2)) == 0
    rows = []
    for i in range(n):
        r = {"a": draw(st.sampled_from(["p", "q", "r"])), "i": draw(st.integers(1, 9)), "x": draw(st.sampled_from(["u", "v", 3, "w"]))}
        if draw(st.booleans()):
            r["y"] = draw(st.integers(0, 3))
        if wide:
            for j in range(10):
                r["f%02d" % j] = draw(st.integers(0, 9))
        rows.append(r)
    chain = draw(st.lists(st.sampled_from(VERBS), min_size=1, max_size=3))
    fmt = draw(st.sampled_from(["json", "dkvp", "csvlite", "xtab", "pprint"]))
    if wide and draw(st.booleans()):
        # records whose key index is built lazily (>= 12 fields from a line-oriented reader) through verbs that move names around and then
        # look fields up by name: the class on which --hash-records and --no-hash-records can disagree
        movers = [["rename", "a,t"], ["rename", "a,t,x,a"], ["rename", "x,a"], ["put", "$[[1]] = \"first\""], ["rename", "-r", "^f0(.)$,g\\1"], ["reorder", "-e", "-f", "a"], ["cut", "-x", "-f", "f03"]]
        users = [["put", "$a = \"new\""], ["put", "$t = $a . \"!\""], ["cut", "-x", "-f", "a"], ["rename", "t,a"], ["sort", "-f", "t"], ["head", "-n", "1", "-g", "t"], ["rename", "x,a"], ["cut", "-o", "-f", "t,a,i"],
                 ["put", "unset $a"], ["sort-within-records"], ["count-similar", "-g", "a"], ["put", "$n = NF . \":\" . $g3"]]
        chain = [draw(st.sampled_from(movers)), draw(st.sampled_from(users))] + ([draw(st.sampled_from(users))] if draw(st.booleans()) else [])
        return {"rows": rows, "chain": chain, "fmt": fmt, "ifmt": "dkvp", "nfiles": draw(st.sampled_from([0, 1, 2])), "nleft": 4}
    return {"rows": rows, "chain": chain, "fmt": fmt, "ifmt": draw(st.sampled_from(["json", "json", "dkvp"])), "nfiles": draw(st.sampled_from([0, 0, 1, 2, 3])), "nleft": draw(st.sampled_from([3, 4, 6, 9]))}


def render_in(rows, ifmt):
    if ifmt == "json":
        return json.dumps(rows).encode()
    return "".join(",".join("%s=%s" % kv for kv in r.items()) + "\n" for r in rows).encode()


def body(ctx, case):
    rows, chain, fmt, ifmt = case["rows"], case["chain"], case["fmt"], case["ifmt"]
    d = vrun.newdir("b")
    try:
        _body(ctx, case, d)
    finally:
        shutil.rmtree(d, ignore_errors=True)


def _body(ctx, case, d):
    rows, chain, fmt, ifmt = case["rows"], case["chain"], case["fmt"], case["ifmt"]
    n = len(rows)
    # left files for joins
    nl = case.get("nleft", 4)
    good_left = os.path.join(d, "left.csv")
    with open(good_left, "w") as f:
        f.write("a,lv\n" + "".join("%s,%d\n" % ("pqrs"[i % 4], i) for i in range(nl)))
    bad_left = os.path.join(d, "left-bad.csv")
    with open(bad_left, "w") as f:
        f.write("a,lv\n" + "".join("%s,%d\n" % ("pqrs"[i % 4], i) for i in range(nl)) + "p,1,EXTRA\n")
    tail = []
    for k, v in enumerate(chain):
        if k:
            tail.append("then")
        if v == ["JOIN-GOOD"]:
            v = ["join", "--icsv", "-j", "a", "-f", good_left]
        elif v == ["JOIN-BADLAST"]:
            v = ["join", "--icsv", "-j", "a", "-f", bad_left]
        elif v == ["JOIN-MISSING"]:
            v = ["join", "--icsv", "-j", "a", "-f", os.path.join(d, "no-such-left.csv")]
        tail += v
    files = []
    stdin = None
    if case["nfiles"] == 0:
        stdin = render_in(rows, ifmt)
    else:
        per = (n + case["nfiles"] - 1) // case["nfiles"] if n else 0
        for i in range(case["nfiles"]):
            p = os.path.join(d, "in%d.dat" % i)
            with open(p, "wb") as f:
                f.write(render_in(rows[i * per:(i + 1) * per] if per else [], ifmt))
            files.append(p)
    configs = [(500, "16", None, None), (1, "1", None, None), (2, "16", "--hash-records", None), (3, "2", "--no-hash-records", None), (max(1, n - 1), "16", None, None), (max(1, n), "1", None, None),
               (n + 1, "16", None, None), (8, "4", None, None), (1, None, "--no-hash-records", None), (1, None, None, "5:300"), (2, None, None, "11:1000:400|chain.after-receive"),
               (500, None, None, "23:500")]
    ref = None
    refargs = None
    nrandom = sum(1 for v in chain if v[0] in ("shuffle", "bootstrap", "sample") or "urandint" in " ".join(v))
    compare_stdout = nrandom <= 1
    if not compare_stdout:
        ctx.excluded["known:seed-shared-rng-across-verbs"] += 1   # see KNOWN below: only exit status and termination are asserted for this class
    early = any(v[0] in ("head", "nothing", "seqgen") or "head" in v for v in chain)
    nonstreaming = any(v[0] in ("tac", "sort", "count", "stats1", "group-by", "unsparsify", "top", "count-similar", "uniq", "shuffle", "bootstrap", "fraction", "tail") for v in chain)
    ctx.case(case, n >= 2 and (len(chain) >= 2 or early or nonstreaming), labels=("out-" + fmt, "in-" + ifmt, "early-exit" if early else "no-early-exit", "files%d" % case["nfiles"],
                                                                                "wide" if any(len(r) >= 12 for r in rows) else "narrow"),
             sample={"chain": chain, "fmt": fmt, "n": n} if n >= 4 and len(ctx.samples) < 3 else None)
    for rpb, gmp, hashrec, sched in configs:
        path = ctx.mlr_path
        env_extra = {}
        if gmp:
            env_extra["GOMAXPROCS"] = gmp
        if sched:
            if not ctx.mlr_verif_path:
                continue
            path = ctx.mlr_verif_path
            spec, _, sites = sched.partition("|")
            env_extra["MLR_VERIF_SCHED"] = spec
            if sites:
                env_extra["MLR_VERIF_SITES"] = sites
        args = [path, "--seed", "17", "--i" + ifmt, "--o" + fmt, "--records-per-batch", str(rpb)] + ([hashrec] if hashrec else []) + ["--nr-progress-mod", "3"] + tail + files
        res = vrun.run(args, stdin=stdin, env=vrun.base_env(env_extra), timeout=20, quit_dump=True)
        ctx.mlr.invocations += 1
        cfg = {"rpb": rpb, "GOMAXPROCS": gmp, "hash": hashrec, "sched": sched}
        if res.timed_out:
            # hang rule: must reproduce
            again = 0
            for _ in range(2):
                r2 = vrun.run(args, stdin=stdin, env=vrun.base_env(env_extra), timeout=20)
                again += 1 if r2.timed_out else 0
            if again >= 1:
                ctx.fail(case, "does not terminate under %r (chain %r, %d records): %s" % (cfg, chain, n, res.err[-600:].decode("utf-8", "replace")), {"kind": "hang"})
            return
        if res.panicked and b"mlr:" not in res.err[:200]:
            ctx.fail(case, "panic under %r: %s" % (cfg, res.err[:400].decode("utf-8", "replace")))
        cur = (res.rc != 0, res.out if (res.rc == 0 and compare_stdout) else None)
        if ref is None:
            ref, refargs = cur, cfg
        elif cur != ref:
            if cur[0] != ref[0]:
                ctx.fail(case, "exit status depends on the configuration: %s under %r, %s under %r (chain %r, %d records, stderr %r)" % (
                    "fails" if ref[0] else "succeeds", refargs, "fails" if cur[0] else "succeeds", cfg, chain, n, res.err[:200]))
            ctx.fail(case, "stdout depends on the configuration (chain %r, %d records, %s):\n  under %r: %r\n  under %r: %r" % (chain, n, fmt, refargs, (ref[1] or b"")[:400], cfg, (cur[1] or b"")[:400]))


# ---- termination on endless producers

ENDLESS = [
    (["seqgen", "--stop", "1000000000000", "then", "head", "-n", "4"], None, 4),
    (["seqgen", "--stop", "1000000000000", "then", "head", "-n", "4", "then", "put", "$y = $i * 2"], None, 4),
    (["seqgen", "--stop", "1000000000000", "then", "put", "$y = $i", "then", "head", "-n", "3", "then", "head", "-n", "1"], None, 1),
    # tee deliberately does not pass the stop request upstream (its file must receive everything), so the producer here is finite
    (["seqgen", "--stop", "200000", "then", "tee", "/dev/null", "then", "cat", "then", "head", "-n", "2"], None, 2),
    (["head", "-n", "3"], "yes", 3), (["head", "-n", "3", "then", "head", "-n", "2"], "yes", 2), (["head", "-n", "1", "-g", "a", "then", "head", "-n", "1"], "yes", 1),
    (["put", "$b = NR", "then", "head", "-n", "5", "then", "tac"], "yes", 5), (["nothing"], "yes-finite", 0), (["head", "-n", "2", "then", "put", "-q", "print NR"], "yes", 2),
]


def sub_termination(ctx):
    for argv, feed, nout in ENDLESS:
        for rpb in (1, 2, 500):
            for gmp in (None, "1"):
                args = [ctx.mlr_path, "--records-per-batch", str(rpb)] + argv
                env = vrun.base_env({"GOMAXPROCS": gmp} if gmp else None)
                t0 = time.time()
                if feed == "yes":
                    # an endless writer on stdin: mlr must exit by itself once head is satisfied
                    ypr = subprocess.Popen(["yes", "a=1,b=2"], stdout=subprocess.PIPE)
                    p = subprocess.Popen(args, stdin=ypr.stdout, stdout=subprocess.PIPE, stderr=subprocess.PIPE, env=env)
                    ypr.stdout.close()
                    try:
                        out, err = p.communicate(timeout=20)
                        hung = False
                    except subprocess.TimeoutExpired:
                        p.kill()
                        out, err = p.communicate()
                        hung = True
                    ypr.kill()
                    ypr.wait()
                    rc = p.returncode
                else:
                    stdin = b"a=1,b=2\n" * 1000 if feed == "yes-finite" else None
                    r = vrun.run(args, stdin=stdin, env=env, timeout=20)
                    out, err, rc, hung = r.out, r.err, r.rc, r.timed_out
                ctx.mlr.invocations += 1
                ctx.case(("term", tuple(argv), feed, rpb, gmp), True, labels=("endless-" + str(feed),), sample={"argv": argv, "feed": feed, "rpb": rpb} if len(ctx.samples) < 3 else None)
                case = {"argv": argv, "feed": feed, "rpb": rpb, "gomaxprocs": gmp}
                if hung:
                    if not ctx.guard(ctx.fail, case, "does not terminate on an endless producer: %r (records-per-batch %d, GOMAXPROCS %s)" % (argv, rpb, gmp)):
                        return
                    continue
                if rc != 0:
                    if not ctx.guard(ctx.fail, case, "%r exits %s: %r" % (argv, rc, err[:200])):
                        return
                if nout is not None and len(out.splitlines()) != nout:
                    if not ctx.guard(ctx.fail, case, "%r printed %d lines, expected %d" % (argv, len(out.splitlines()), nout)):
                        return
                if time.time() - t0 > 10:
                    ctx.note("slow exit (%.1fs) for %r rpb %d" % (time.time() - t0, argv, rpb))


# ---- tail -f contract (state machine over input arrival)

STREAMING = [(["cat"], lambda r, k: r), (["put", "$z = $a . \"s\""], None), (["rename", "a,b"], None), (["cut", "-f", "a"], None), (["cat", "-n"], None), (["sec2gmt", "t"], None),
             (["put", "-q", "print $a"], None), (["fill-down", "-f", "a"], None), (["step", "-a", "delta,counter", "-f", "i"], None), (["filter", "true"], None),
             (["head", "-n", "1000", "then", "put", "$q = NR"], None), (["put", "$q = NR", "then", "cat", "then", "rename", "q,r"], None), (["tee", "/dev/null"], None), (["nest", "--ivar", ";", "-f", "nosuch"], None)]


@st.composite
def tailf_case(draw):
    return {"verb": draw(st.integers(0, len(STREAMING) - 1)), "ifmt": draw(st.sampled_from(["dkvp", "nidx", "csv", "tsv", "json"])), "ofmt": draw(st.sampled_from(["dkvp", "csv", "tsv", "jsonl", "xtab"])),
            "n": draw(st.integers(3, 7)), "gomaxprocs": draw(st.sampled_from([None, "1"]))}


def body_tailf(ctx, case):
    verb = STREAMING[case["verb"]][0]
    ifmt, ofmt, n = case["ifmt"], case["ofmt"], case["n"]
    if ifmt == "nidx" and verb[0] in ("rename", "cut", "fill-down", "step", "sec2gmt") or (ifmt == "nidx" and "$a" in " ".join(verb)):
        verb = ["cat"]
    if ifmt == "json" and ofmt == "xtab":
        ofmt = "dkvp"

    def line(i):
        if ifmt == "dkvp":
            return "a=v%d,i=%d,t=%d\n" % (i, i * 3, 1500000000 + i)
        if ifmt == "nidx":
            return "v%d %d %d\n" % (i, i * 3, 1500000000 + i)
        if ifmt == "csv":
            return "v%d,%d,%d\n" % (i, i * 3, 1500000000 + i)
        if ifmt == "tsv":
            return "v%d\t%d\t%d\n" % (i, i * 3, 1500000000 + i)
        return '{"a": "v%d", "i": %d, "t": %d}\n' % (i, i * 3, 1500000000 + i)
    hdr = {"csv": "a,i,t\n", "tsv": "a\ti\tt\n"}.get(ifmt, "")
    args = [ctx.mlr_path, "--records-per-batch", "1", "--fflush", "--i" + ifmt, "--o" + ofmt] + verb
    env = vrun.base_env({"GOMAXPROCS": case["gomaxprocs"]} if case["gomaxprocs"] else None)
    ctx.case(case, True, labels=("tailf-" + ifmt + "-" + ofmt,), sample={"verb": verb, "ifmt": ifmt, "ofmt": ofmt, "n": n} if len(ctx.samples) < 3 else None)
    attempts = 0
    while True:
        attempts += 1
        p = subprocess.Popen(args, stdin=subprocess.PIPE, stdout=subprocess.PIPE, stderr=subprocess.PIPE, env=env, bufsize=0)
        ctx.mlr.invocations += 1
        missing = None
        try:
            if hdr:
                p.stdin.write(hdr.encode())
            seen = b""
            for i in range(1, n + 1):
                p.stdin.write(line(i).encode())
                p.stdin.flush()
                # the output for record i must become readable while stdin is still open
                deadline = time.time() + 3.0
                marker = ("v%d" % i).encode()
                while marker not in seen and time.time() < deadline:
                    r, _, _ = select.select([p.stdout], [], [], 0.05)
                    if r:
                        chunk = os.read(p.stdout.fileno(), 65536)
                        if not chunk:
                            break
                        seen += chunk
                if marker not in seen:
                    missing = i
                    break
            p.stdin.close()
            p.wait(timeout=10)
        except (BrokenPipeError, subprocess.TimeoutExpired):
            missing = missing or -1
        finally:
            try:
                p.kill()
            except OSError:
                pass
            p.wait()
            err = p.stderr.read()
            for fh in (p.stdout, p.stderr):
                fh.close()
        if missing is None:
            return
        if attempts >= 3:
            ctx.fail(case, "tail -f contract: with --records-per-batch 1 --fflush, the output for input record %d of %r (--i%s --o%s) was not written while the input was still open (3 attempts); stderr %r" % (
                missing, verb, ifmt, ofmt, err[:200]))
            return


def sub_diff(ctx):
    ctx.hyp(case_strategy(), lambda c: body(ctx, c), ctx.n(330, 6000), shrink_budget=40)


def sub_tailf(ctx):
    ctx.hyp(tailf_case(), lambda c: body_tailf(ctx, c), ctx.n(120, 1500), shrink_budget=20)


# ---- a dedicated probe for schedule-dependent join failures (left-file reader error vs end of stream)

def sub_join_sched(ctx):
    d = vrun.newdir("js")
    try:
        for nl in (3, 4, 6, 9, 30):
            bad = os.path.join(d, "left%d.csv" % nl)
            with open(bad, "w") as f:
                f.write("a,lv\n" + "".join("%s,%d\n" % ("pqrs"[i % 4], i) for i in range(nl)) + "p,1,EXTRA\n")
            outcomes = set()
            runs = 0
            for gmp in (None, "1", "2"):
                for rep in range(8 if ctx.quick else 40):
                    for path, extra in ((ctx.mlr_path, {}), (ctx.mlr_verif_path, {"MLR_VERIF_SCHED": "%d:400" % (rep + 1)})):
                        if not path:
                            continue
                        env = vrun.base_env(dict(extra, **({"GOMAXPROCS": gmp} if gmp else {})))
                        r = vrun.run([path, "--icsv", "--ojson", "join", "-j", "a", "-f", bad, "then", "put", "$z = 1"], stdin=b"a,rv\np,5\nq,6\n", env=env, timeout=20)
                        ctx.mlr.invocations += 1
                        runs += 1
                        outcomes.add(r.rc != 0)
                        ctx.case(("join-sched", nl, gmp, rep, bool(extra)), True, sample={"left_rows": nl, "GOMAXPROCS": gmp} if len(ctx.samples) < 2 else None)
            if len(outcomes) > 1 or outcomes == {False}:
                if not ctx.guard(ctx.fail, {"left_rows": nl}, "join with a malformed last row in the left file (%d good rows): %s across %d runs" % (
                        nl, "fails in some runs and exits 0 in others" if len(outcomes) > 1 else "always exits 0", runs)):
                    return
    finally:
        shutil.rmtree(d, ignore_errors=True)


SUBCHECKS = [
    Sub("config_differential", sub_diff, body, shards={"quick": 11, "thorough": 16}, cost=3, rule="exit status and stdout identical across 9-12 batching/scheduling configurations"),
    Sub("termination_endless", sub_termination, None, shards={"quick": 1, "thorough": 1}, exhaustive=True, cost=2, rule="10 early-exit chains on endless/huge producers x batch sizes 1/2/500 x GOMAXPROCS: exit by themselves within 20 s with the expected prefix"),
    Sub("tail_f_contract", sub_tailf, body_tailf, shards={"quick": 3, "thorough": 6}, cost=2, rule="records delivered one line at a time on an open pipe: each record's output readable (< 3 s) before the next line is written"),
    Sub("join_left_error_schedules", sub_join_sched, None, shards={"quick": 1, "thorough": 1}, cost=2, rule="left-file reader error just before its end-of-stream: same exit status in every run (GOMAXPROCS 1/2/default, perturbed schedules)"),
]

def _k_rng(sub, case, message, detail):
    return False   # the class is excluded by construction in body(); the entry exists for the pinned probe and the KNOWN-FINDING line


def _p_rng(mlr):
    outs = set()
    data = "".join("i=%d\n" % i for i in range(40)).encode()
    for _ in range(40):
        r = mlr(["--seed", "17", "--records-per-batch", "1", "put", "$u = urandint(1, 100)", "then", "put", "$w = urandint(1, 100)"], stdin=data)
        outs.add(r.out)
        if len(outs) > 1:
            return True
    return False


KNOWN = {
    "seed-shared-rng-across-verbs": {"match": _k_rng, "probe": _p_rng},
}
