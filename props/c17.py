"""C17 - failures are never silent (fault enumeration)."""
import bz2
import errno
import gzip
import json
import os
import shutil
import zlib

from hypothesis import strategies as st

from vlib.core import Sub
from vlib import run as vrun
from vlib import sysfault

LEVEL = "fault_enumeration"
NEEDS_VERIF_BUILD = True
RULE = ("generated (chain, input) cases x fault kind x position x schedule: input faults (missing/unreadable file at index j of n, directory, dangling "
        "symlink, corrupt or truncated gz/bz2/zlib, failing or missing prepipe, malformed CSV/TSV/JSON/DKVPX/YAML at record k in {1, b-1, b, b+1, last} "
        "relative to the batch size b), processing faults (typed-assignment, asserting_*, -x data error at record k / in begin / in end; failing verb at "
        "chain position p: join left file missing, split/tee/redirect to an unwritable path, template file missing), output faults (CSV/TSV schema "
        "change, stdout=/dev/full, closed pipe, ENOSPC/EIO injected by a ptrace supervisor at the N-th write for every N of the fault-free run, also on "
        "tee/split/redirect targets) x batch sizes {1,2,4,500} x GOMAXPROCS {1,16} x seeded schedule perturbation (-tags verif); oracle: non-zero exit, "
        "non-empty stderr mentioning mlr, no panic trace, terminates; evaluations = (case, fault, position, schedule) tuples; non-trivial = fault not at "
        "the first record, or failing verb not last, or a perturbed schedule")
ASSUMPTIONS = ["exit by SIGPIPE counts as non-zero for closed-pipe faults", "schedules are sampled, not enumerated"]

SCHEDS = [None, None, "3", "11:300", "7:1000:300|chain.before-eos-forward", "5:1000:500|stream.select", "9:1000:500|writer.before-done", "13:1000:500|chain.before-error-post",
          "17:1000:300|stream.drain", "19:600"]


def good(fmt, n, seed=0):
    if fmt == "dkvp":
        return "".join("a=%d,b=x%d\n" % (i, i % 3) for i in range(1, n + 1))
    if fmt == "csv":
        return "a,b\n" + "".join("%d,x%d\n" % (i, i % 3) for i in range(1, n + 1))
    if fmt == "tsv":
        return "a\tb\n" + "".join("%d\tx%d\n" % (i, i % 3) for i in range(1, n + 1))
    if fmt == "json":
        return "\n".join(json.dumps({"a": i, "b": "x%d" % (i % 3)}) for i in range(1, n + 1)) + "\n"
    if fmt == "dkvpx":
        return "".join('a=%d,b="x,%d"\n' % (i, i % 3) for i in range(1, n + 1))
    if fmt == "yaml":
        return "".join("- a: %d\n  b: x%d\n" % (i, i % 3) for i in range(1, n + 1))
    raise ValueError(fmt)


def corrupt(fmt, text, k, how):
    lines = text.split("\n")
    hdr = 1 if fmt in ("csv", "tsv") else 0
    idx = hdr + k - 1
    if fmt == "yaml":
        idx = 2 * (k - 1)
    if how == "ragged":
        lines[idx] = lines[idx] + ("\tEXTRA" if fmt == "tsv" else ",EXTRA")
    elif how == "short":
        lines[idx] = lines[idx].split("\t" if fmt == "tsv" else ",")[0]
    elif how == "openquote":
        lines[idx] = lines[idx].replace(",x", ',"x', 1) if fmt != "dkvpx" else lines[idx].replace('b="x', 'b="x', 1)[:-1]
    elif how == "barequote":
        lines[idx] = lines[idx].replace(",x", ',x"y', 1)
    elif how == "syntax":
        lines[idx] = '{"a":%d,"b":' % k
    elif how == "nonobject":
        lines[idx] = "17"
    elif how == "truncated":
        return "\n".join(lines[:idx]) + '\n{"a": 1, "b'
    elif how == "yaml-bad":
        lines[idx] = "- a: [unclosed"
    return "\n".join(lines)


INPUT_FAULTS = [("csv", "ragged"), ("csv", "short"), ("csv", "openquote"), ("tsv", "ragged"), ("tsv", "short"), ("json", "syntax"), ("json", "nonobject"), ("json", "truncated"),
                ("yaml", "yaml-bad")]
CHAINS = [["cat"], ["put", "$c = $a . \"s\""], ["sort", "-nr", "a"], ["head", "-n", "100000"], ["tac"], ["cat", "then", "put", "$d = 1"], ["stats1", "-a", "count", "-f", "a"],
          ["put", "-q", "tee > \"/dev/null\", $*"], ["nothing"], ["cat", "-n", "then", "tac", "then", "cat"]]


@st.composite
def case_strategy(draw):
    kind = draw(st.sampled_from(["malformed", "malformed", "malformed", "missing-file", "unreadable", "compressed", "prepipe", "dsl", "dsl", "verb", "schema-out", "schema-out-target", "devfull", "closed-pipe",
                                 "target-open", "pipe-target", "split-devfull"]))
    rpb = draw(st.sampled_from([1, 2, 4, 500, 500]))
    n = draw(st.sampled_from([3, 9, 12, 1003]))
    pos = draw(st.sampled_from(["first", "b-1", "b", "b+1", "last", "mid"]))
    b = rpb if rpb < n else max(1, n // 2)
    k = {"first": 1, "b-1": max(1, b - 1), "b": min(n, b), "b+1": min(n, b + 1), "last": n, "mid": max(1, n // 2)}[pos]
    if rpb == 500 and n == 1003 and pos in ("b-1", "b", "b+1"):
        k = {"b-1": 499, "b": 500, "b+1": 501}[pos]
    c = {"kind": kind, "rpb": rpb, "n": n, "k": k, "pos": pos, "chain": draw(st.sampled_from(CHAINS)), "gomaxprocs": draw(st.sampled_from([None, 1, 16])), "sched": draw(st.sampled_from(SCHEDS)),
         "nfiles": draw(st.integers(1, 3)), "j": 0, "p": draw(st.integers(0, 2))}
    c["j"] = draw(st.integers(0, c["nfiles"] - 1))
    if kind == "malformed":
        c["fmt"], c["how"] = draw(st.sampled_from(INPUT_FAULTS))
    elif kind == "unreadable":
        c["how"] = draw(st.sampled_from(["directory", "dangling-symlink"]))
        c["fmt"] = draw(st.sampled_from(["dkvp", "csv", "tsv", "json", "nidx", "xtab", "pprint", "markdown", "csvlite", "dkvpx", "yaml"]))
    elif kind == "compressed":
        c["how"] = draw(st.sampled_from(["garbage-gz", "trunc-gz", "trunc-bz2", "trunc-z", "garbage-gzin", "trunc-gz-big"]))
        c["fmt"] = draw(st.sampled_from(["dkvp", "csv", "json"]))
    elif kind == "prepipe":
        c["how"] = draw(st.sampled_from(["false", "nonexistent_cmd_xyz", "sh -c 'cat; exit 3' <"]))
    elif kind == "dsl":
        c["how"] = draw(st.sampled_from(["typed", "assert", "x-dataerror", "end-typed", "begin-assert", "func-return-type", "array-index-0"]))
    elif kind == "verb":
        c["how"] = draw(st.sampled_from(["join-left-missing", "template-file-missing", "tee-verb-unwritable", "split-unwritable"]))
    elif kind in ("schema-out", "schema-out-target"):
        c["fmt"] = draw(st.sampled_from(["csv", "tsv"]))
        c["how"] = draw(st.sampled_from(["stdout"] if kind == "schema-out" else ["tee-redirect", "tee-verb", "split", "emit-redirect"]))
    elif kind == "target-open":
        c["how"] = draw(st.sampled_from(["tee >", "emit >", "print >", "dump >", "tee >>", "print | "]))
    return c


def mlr_run(ctx, case, args, stdin=None, stdout_path=None, cwd=None, timeout=30):
    env_extra = {}
    path = ctx.mlr_path
    if case.get("gomaxprocs"):
        env_extra["GOMAXPROCS"] = str(case["gomaxprocs"])
    if case.get("sched") and ctx.mlr_verif_path:
        path = ctx.mlr_verif_path
        spec, _, sites = case["sched"].partition("|")
        env_extra["MLR_VERIF_SCHED"] = spec
        if sites:
            env_extra["MLR_VERIF_SITES"] = sites
    env = vrun.base_env(env_extra)
    ctx.mlr.invocations += 1
    return vrun.run([path, "--records-per-batch", str(case["rpb"])] + args, stdin=stdin, env=env, cwd=cwd, timeout=timeout, stdout_path=stdout_path, quit_dump=True)


def judge(ctx, case, res, what, allow_sigpipe=False):
    problems = []
    if res.timed_out:
        problems.append("does not terminate (killed after the time limit)")
    if res.panicked:
        problems.append("Go panic / fatal runtime error on stderr")
    if res.rc == 0 and not res.timed_out:
        problems.append("exit status 0")
    if res.rc is not None and res.rc < 0 and not (allow_sigpipe and res.rc == -13) and not res.timed_out:
        problems.append("killed by signal %d" % -res.rc)
    if res.rc != 0 and not res.timed_out and not (allow_sigpipe and res.rc == -13):
        if not res.err.strip():
            problems.append("nothing on stderr")
        elif b"mlr" not in res.err:
            problems.append("stderr does not mention mlr: %r" % res.err[:100])
    if problems:
        ctx.fail(case, "%s: %s   [stderr %r; stdout %d bytes]" % (what, "; ".join(problems), res.err[:200], len(res.out)), {"kind": case["kind"], "how": case.get("how"), "rc": res.rc, "timed_out": res.timed_out})


def body(ctx, case):
    kind, n, k = case["kind"], case["n"], case["k"]
    d = vrun.newdir("flt")
    try:
        _body(ctx, case, d)
    finally:
        shutil.rmtree(d, ignore_errors=True)


def _body(ctx, case, d):
    kind, n, k, chain = case["kind"], case["n"], case["k"], list(case["chain"])
    nontrivial = k > 1 or case.get("sched") is not None or case["p"] > 0
    ctx.case(case, nontrivial, labels=(kind + ":" + str(case.get("how", "")), "rpb%d" % case["rpb"], "sched" if case.get("sched") else "plain", "pos-" + case["pos"]),
             sample={x: case[x] for x in ("kind", "how", "fmt", "rpb", "n", "k", "chain", "sched") if x in case} if nontrivial and len(ctx.samples) < 4 else None)

    def w(name, data):
        p = os.path.join(d, name)
        with open(p, "wb") as f:
            f.write(data if isinstance(data, bytes) else data.encode())
        return p
    if kind == "malformed":
        fmt, how = case["fmt"], case["how"]
        files = []
        for i in range(case["nfiles"]):
            text = good(fmt, n)
            if i == case["j"]:
                text = corrupt(fmt, text, k, how)
            files.append(w("in%d.%s" % (i, fmt), text))
        res = mlr_run(ctx, case, ["-i", fmt if fmt != "dkvpx" else "dkvpx", "--ojson"] + chain + files)
        judge(ctx, case, res, "%s input with %s at record %d of %d (file %d of %d, chain %r)" % (fmt, how, k, n, case["j"] + 1, case["nfiles"], chain))
    elif kind == "missing-file":
        files = [w("in%d.dkvp" % i, good("dkvp", n)) for i in range(case["nfiles"])]
        files[case["j"]] = os.path.join(d, "no-such-file.dkvp")
        res = mlr_run(ctx, case, chain + files)
        judge(ctx, case, res, "missing file at position %d of %d" % (case["j"] + 1, case["nfiles"]))
        if res.rc != 0 and b"no-such-file" not in res.err:
            ctx.fail(case, "the diagnostic does not name the missing file: %r" % res.err[:200])
    elif kind == "unreadable":
        fmt = case["fmt"]
        files = [w("in%d.dat" % i, good("dkvp", 3)) for i in range(case["nfiles"])] if fmt == "dkvp" else []
        bad = os.path.join(d, "bad")
        if case["how"] == "directory":
            os.mkdir(bad)
        else:
            os.symlink(os.path.join(d, "nowhere"), bad)
        if files:
            files[case["j"]] = bad
        else:
            files = [bad]
        res = mlr_run(ctx, case, ["-i", fmt, "--ojson"] + chain + files)
        judge(ctx, case, res, "%s as %s input" % (case["how"], fmt))
    elif kind == "compressed":
        fmt, how = case["fmt"], case["how"]
        data = good(fmt, max(n, 200)).encode()
        flag = []
        if how == "garbage-gz":
            f = w("g.gz", b"\x1f\x8b\x08\x00garbage-not-deflate-data")
        elif how == "trunc-gz":
            z = gzip.compress(data)
            f = w("t.gz", z[:len(z) // 2])
        elif how == "trunc-gz-big":
            z = gzip.compress(good(fmt, 20000).encode())
            f = w("t.gz", z[:len(z) - 9])
        elif how == "trunc-bz2":
            z = bz2.compress(data)
            f = w("t.bz2", z[:len(z) // 2])
        elif how == "trunc-z":
            z = zlib.compress(data)
            f = w("t.z", z[:len(z) // 2])
        else:
            f = w("g.dat", b"this is not gzip at all\n")
            flag = ["--gzin"]
        # 20000 records at --records-per-batch 1 under a dense schedule perturbation take a minute or more: that is the hook's slowdown, not a hang
        res = mlr_run(ctx, case, ["-i", fmt, "--ojson"] + flag + chain + [f], timeout=300 if how == "trunc-gz-big" else 30)
        judge(ctx, case, res, "%s (%s input)" % (how, fmt))
    elif kind == "prepipe":
        f = w("in.dkvp", good("dkvp", n))
        how = case["how"]
        if how.endswith("<"):
            res = mlr_run(ctx, case, ["--prepipex", how] + chain + [f])
        else:
            res = mlr_run(ctx, case, ["--prepipe", how] + chain + [f])
        judge(ctx, case, res, "prepipe command %r fails" % how)
    elif kind == "dsl":
        f = w("in.dkvp", good("dkvp", n))
        how = case["how"]
        pre = []
        if how == "typed":
            prog = 'int q = ($a == %d) ? "s" : $a; $c = q' % k
        elif how == "assert":
            prog = '$c = asserting_string($a == %d ? 1 : "s")' % k
        elif how == "x-dataerror":
            pre = ["-x"]
            prog = '$c = ($a == %d) ? $a .+ "s" : 1' % k
        elif how == "end-typed":
            prog = 'end{int q = "s"}'
        elif how == "begin-assert":
            prog = 'begin{@x = asserting_int("abc")}'
        elif how == "func-return-type":
            prog = 'func f(x): int { return x == %d ? "s" : 1 } $c = f($a)' % k
        else:
            prog = 'arr = [1,2,3]; if ($a == %d) {$c = arr[0]}' % k
        verbs = [["put", prog]]
        # position of the failing verb in the chain
        others = [["cat"], ["tac"], ["cat", "-n"]]
        p = case["p"]
        seq = others[:p] + verbs + others[p:2]
        args = []
        for i, v in enumerate(seq):
            if i:
                args.append("then")
            args += v
        res = mlr_run(ctx, case, pre + args + [f])
        if how == "array-index-0":
            # documented: out-of-bounds index 0 is an error; fatal or error value are both acceptable outcomes -> only crash/hang oracle
            if res.panicked or res.timed_out:
                judge(ctx, case, res, "array index 0")
            return
        judge(ctx, case, res, "DSL failure %s at record %d of %d, verb position %d of %d" % (how, k, n, p + 1, len(seq)))
    elif kind == "verb":
        f = w("in.dkvp", good("dkvp", n))
        how = case["how"]
        bad = {"join-left-missing": ["join", "-j", "a", "-f", os.path.join(d, "nonexistent_left")], "template-file-missing": ["template", "-t", os.path.join(d, "nonexistent_template")],
               "tee-verb-unwritable": ["tee", os.path.join(d, "no/such/dir/t")], "split-unwritable": ["split", "-n", "2", "--prefix", os.path.join(d, "no/such/dir/p")],
               "case-bad-flags": ["case", "-u", "-l", "-f", "a"]}[how]
        others = [["cat"], ["tac"], ["cat", "-n"]]
        p = case["p"]
        seq = others[:p] + [bad] + others[p:2]
        args = []
        for i, v in enumerate(seq):
            if i:
                args.append("then")
            args += v
        res = mlr_run(ctx, case, args + [f])
        judge(ctx, case, res, "failing verb %s at chain position %d of %d" % (how, p + 1, len(seq)))
    elif kind == "schema-out":
        f = w("in.dkvp", good("dkvp", n))
        res = mlr_run(ctx, case, ["--o" + case["fmt"], "put", 'if ($a == %d) {$* = {"x": 1, "y": 2}}' % max(k, 2)] + [f])
        judge(ctx, case, res, "%s output with a key change at record %d" % (case["fmt"], max(k, 2)))
    elif kind == "schema-out-target":
        f = w("in.dkvp", good("dkvp", n))
        how = case["how"]
        kk = max(k, 2)
        tgt = os.path.join(d, "tgt." + case["fmt"])
        if how == "tee-redirect":
            args = ["--o" + case["fmt"], "put", "-q", 'if ($a == %d) {$* = {"x": 1, "y": 2}} tee > "%s", $*' % (kk, tgt)]
        elif how == "emit-redirect":
            args = ["--o" + case["fmt"], "put", "-q", 'if ($a == %d) {$* = {"x": 1, "y": 2}} emit > "%s", mapsum($*, {})' % (kk, tgt)]
        elif how == "tee-verb":
            args = ["--ojson", "put", 'if ($a == %d) {$* = {"x": 1, "y": 2}}' % kk, "then", "tee", "--o" + case["fmt"], tgt]
        else:
            args = ["--ojson", "put", 'if ($a == %d) {$* = {"x": 1, "y": 2}}' % kk, "then", "split", "--o" + case["fmt"], "-n", "100000", "--prefix", os.path.join(d, "sp")]
        for attempt in range(4 if kk >= n else 1):   # an error in the final record races with the close: repeat
            res = mlr_run(ctx, case, args + [f], timeout=15)
            judge(ctx, case, res, "%s target (%s) with a key change at record %d of %d (attempt %d)" % (case["fmt"], how, kk, n, attempt + 1))
    elif kind == "devfull":
        f = w("in.dkvp", good("dkvp", max(n, 12)))
        res = mlr_run(ctx, case, chain + [f], stdout_path="/dev/full")
        if chain in (["nothing"], ["put", "-q", 'tee > "/dev/null", $*']):
            return
        judge(ctx, case, res, "stdout is /dev/full (chain %r, %d records)" % (chain, max(n, 12)))
    elif kind == "closed-pipe":
        f = w("in.dkvp", good("dkvp", 60000))
        import subprocess
        env = vrun.base_env()
        p = subprocess.Popen([ctx.mlr_path, "--records-per-batch", str(case["rpb"]), "cat", f], stdout=subprocess.PIPE, stderr=subprocess.PIPE, env=env)
        p.stdout.read(10)
        p.stdout.close()
        try:
            rc = p.wait(timeout=30)
        except Exception:
            p.kill()
            ctx.fail(case, "mlr does not terminate after its stdout pipe was closed")
            return
        err = p.stderr.read()
        if rc == 0:
            ctx.fail(case, "exit 0 although stdout was closed after 10 bytes of a 60000-record output", {"kind": kind})
        if b"panic" in err or b"goroutine " in err:
            ctx.fail(case, "panic after closed stdout pipe: %r" % err[:200])
    elif kind == "target-open":
        f = w("in.dkvp", good("dkvp", n))
        how = case["how"]
        bad = os.path.join(d, "no/such/dir/x")
        stmt = {"tee >": 'tee > "%s", $*', "emit >": 'emit > "%s", mapsum($*, {})', "print >": 'print > "%s", "hello"', "dump >": 'dump > "%s", $*', "tee >>": 'tee >> "%s", $*',
                "print | ": 'print | "exit 7; cat > /dev/null #%s", "hello"'}[how] % bad
        res = mlr_run(ctx, case, ["put", "-q", "if ($a == %d) {%s}" % (k, stmt), f])
        if how == "print | ":
            # a sink command that exits non-zero: must be reported
            judge(ctx, case, res, "redirect to a pipe whose command exits 7 (at record %d)" % k)
        else:
            judge(ctx, case, res, "redirect %r to an unwritable path at record %d of %d" % (how, k, n))
    elif kind == "pipe-target":
        f = w("in.dkvp", good("dkvp", n))
        res = mlr_run(ctx, case, ["tee", "-p", "nonexistent_command_xyz_123", "then", "put", "$z = 1", f])
        judge(ctx, case, res, "tee -p to a command that does not exist")
    elif kind == "split-devfull":
        f = w("in.dkvp", good("dkvp", max(n, 9)))
        nn = max(n, 9)
        chunks = 4
        per = (nn + chunks - 1) // chunks
        chunks = (nn + per - 1) // per
        which = 1 + (k % chunks)
        os.symlink("/dev/full", os.path.join(d, "sp_%d.dkvp" % which))
        res = mlr_run(ctx, case, ["split", "-n", str(per), "--prefix", os.path.join(d, "sp"), f])
        judge(ctx, case, res, "split -n: chunk file %d of %d is a symlink to /dev/full (ENOSPC on write)" % (which, chunks))
    else:
        raise ValueError(kind)


# ---- exhaustive write-index enumeration with the ptrace supervisor

@st.composite
def write_case(draw):
    return {"n": draw(st.sampled_from([5, 300, 5000])), "rpb": draw(st.sampled_from([1, 500])), "dest": draw(st.sampled_from(["stdout", "tee-file", "split-files", "redirect-file"])),
            "fmt": draw(st.sampled_from(["dkvp", "csv", "json"])), "err": draw(st.sampled_from([errno.ENOSPC, errno.EIO]))}


def body_writes(ctx, case):
    if not sysfault.ensure():
        ctx.label("ptrace-unavailable-skipped")
        return
    d = vrun.newdir("wr")
    try:
        f = os.path.join(d, "in.dkvp")
        with open(f, "w") as fh:
            fh.write(good("dkvp", case["n"]))
        base = [ctx.mlr_path, "--records-per-batch", str(case["rpb"]), "--o" + case["fmt"]]
        if case["dest"] == "stdout":
            argv = base + ["cat", f]
        elif case["dest"] == "tee-file":
            argv = base + ["tee", os.path.join(d, "t.out"), "then", "put", "-q", "true", f]
        elif case["dest"] == "split-files":
            argv = base + ["split", "-n", str(max(1, case["n"] // 3)), "--prefix", os.path.join(d, "sp"), f]
        else:
            argv = base + ["put", "-q", 'tee > "%s/r_".$b.".out", $*' % d, f]
        out = os.path.join(d, "stdout.txt")
        tr = sysfault.run("list", 0, 0, argv, cwd=d, stdout_too=(case["dest"] == "stdout"), stdout_path=out)
        if tr.rc != 0 or tr.total is None:
            ctx.fail(case, "traced fault-free run failed rc=%s" % tr.rc)
        writes = [c for c in tr.calls if c[2] in ("write", "pwrite64", "writev", "close", "openat")]
        pts = writes if len(writes) <= 30 else writes[:12] + writes[-12:] + writes[len(writes) // 2:len(writes) // 2 + 4]
        for c in pts:
            for fl in os.listdir(d):
                if fl not in ("in.dkvp",):
                    try:
                        os.unlink(os.path.join(d, fl))
                    except OSError:
                        pass
            t2 = sysfault.run("fail", c[0], case["err"], argv, cwd=d, stdout_too=(case["dest"] == "stdout"), stdout_path=out)
            ctx.case(("wr", repr(case), c[0]), True, labels=("write-fault-" + case["dest"], c[2]), sample={"case": case, "call": c} if len(ctx.samples) < 3 else None)
            if c[2] == "close" and t2.rc == 0 and case["dest"] == "stdout":
                continue
            problems = []
            if t2.timed_out:
                problems.append("does not terminate")
            if t2.rc == 0:
                problems.append("exit status 0")
            elif b"mlr" not in t2.err:
                problems.append("no mlr: diagnostic (%r)" % t2.err[:80])
            if b"panic" in t2.err or b"goroutine " in t2.err:
                problems.append("panic")
            if problems:
                ctx.fail({"case": case, "n": c[0]}, "errno %d injected at syscall %d %r of %d (dest %s, %s, %d records): %s" % (case["err"], c[0], c, tr.total, case["dest"], case["fmt"], case["n"], "; ".join(problems)),
                         {"kind": "write-fault", "dest": case["dest"], "call": c[2]})
    finally:
        shutil.rmtree(d, ignore_errors=True)


def body_writes_any(ctx, case):
    if "case" in case:
        return body_writes(ctx, case["case"])
    return body_writes(ctx, case)


def sub_faults(ctx):
    ctx.hyp(case_strategy(), lambda c: body(ctx, c), ctx.n(800, 30000), shrink_budget=40)


def sub_writes(ctx):
    ctx.hyp(write_case(), lambda c: body_writes_any(ctx, c), ctx.n(48, 600), shrink_budget=10)


def _k_prepipe(sub, case, message, detail):
    return case.get("kind") == "prepipe" and detail is not None and detail.get("rc") == 0 and not detail.get("timed_out")


def _p_prepipe(mlr):
    d = vrun.newdir("pp")
    f = os.path.join(d, "in.dkvp")
    with open(f, "w") as fh:
        fh.write("a=1\n")
    r = mlr(["--prepipe", "false", "cat", f])
    shutil.rmtree(d, ignore_errors=True)
    return r.rc == 0


SUBCHECKS = [
    Sub("fault_matrix", sub_faults, body, shards={"quick": 12, "thorough": 16}, cost=3, rule=RULE),
    Sub("write_fault_enumeration", sub_writes, body_writes_any, shards={"quick": 4, "thorough": 8}, cost=2,
        rule="ENOSPC/EIO at every write/openat/close of the fault-free run (complete up to 30 calls, first/last/middle beyond) on stdout, tee, split and redirect targets"),
]

def _k_pipesink(sub, case, message, detail):
    return (case.get("kind") == "pipe-target" or (case.get("kind") == "target-open" and case.get("how") == "print | ")) and detail is not None and detail.get("rc") == 0 and not detail.get("timed_out")


def _p_pipesink(mlr):
    r = mlr(["-n", "put", 'end{print | "exit 7", "hello"}'])
    return r.rc == 0


KNOWN = {
    "prepipe-failure-exit-0": {"match": _k_prepipe, "probe": _p_prepipe},
    "pipe-sink-failure-exit-0": {"match": _k_pipesink, "probe": _p_pipesink},
}
