"""C12 - field-restructuring verbs do exactly their rearrangement and invert cleanly."""
import collections
import json

from hypothesis import strategies as st

from vlib.core import Sub

LEVEL = "exploration"
RULE = ("Hypothesis: heterogeneous streams (0-6 records over a 5-name universe plus 13-field wide records; values incl. empties, spaces, number "
        "spellings) x restructuring verbs with generated field lists (present/absent/overlapping/repeated names): exact dict-manipulation model per "
        "verb, universal bystander predicate, algebraic laws (cut partition, rename round trip, unsparsify rectangle, nest/reshape/flatten/json "
        "inverse pairs) and keystroke-saver verb == DSL equivalent; non-trivial = the verb changes at least one record and a bystander field exists")
ASSUMPTIONS = ["models transcribe each verb's usage text; where it is silent (rename onto an existing name, duplicate names in lists) only the bystander predicate applies"]

FIELDS = ["a", "b", "c", "d", "e"]
WIDE = ["w%02d" % i for i in range(11)]
VAL = st.sampled_from(["1", "x", "", "y z", "007", "1.50", "0xff", "Ab c", "p;q", "-3"])


@st.composite
def stream(draw, max_n=6):
    n = draw(st.integers(0, max_n))
    wide = draw(st.integers(0, 2)) == 0
    out = []
    for i in range(n):
        fs = draw(st.lists(st.sampled_from(FIELDS), min_size=0, max_size=5, unique=True))
        r = [[f, draw(VAL)] for f in fs]
        if wide:
            r += [[w, str(j)] for j, w in enumerate(WIDE)]
            pos = draw(st.integers(0, len(r)))
            r = r[pos:] + r[:pos]
        out.append(r)
    return out


FLIST = st.lists(st.sampled_from(FIELDS + ["zz", "w03", "w07"]), min_size=1, max_size=4)


def D(r):
    return collections.OrderedDict(r)


def L(d):
    return [[k, v] for k, v in d.items()]


def m_cut(recs, fl, o=False, x=False):
    out = []
    for r in recs:
        if x:
            out.append([p for p in r if p[0] not in fl])
        elif o:
            d = D(r)
            n = collections.OrderedDict()
            for f in fl:
                if f in d:
                    n[f] = d[f]
            out.append(L(n))
        else:
            out.append([p for p in r if p[0] in fl])
    return out


def m_template(recs, fl, fill=""):
    out = []
    for r in recs:
        d = D(r)
        n = collections.OrderedDict()
        for f in fl:
            if f not in n:
                n[f] = d.get(f, fill)
        out.append(L(n))
    return out


def m_unsparsify(recs, fill=""):
    keys = []
    for r in recs:
        for k, _ in r:
            if k not in keys:
                keys.append(k)
    return [[[k, D(r).get(k, fill)] for k in keys] for r in recs]


def m_regularize(recs):
    seen = {}
    out = []
    for r in recs:
        sk = tuple(sorted(k for k, _ in r))
        if sk in seen:
            d = D(r)
            out.append([[k, d[k]] for k in seen[sk]])
        else:
            seen[sk] = [k for k, _ in r]
            out.append(r)
    return out


def m_reorder(recs, fl, end=False):
    out = []
    for r in recs:
        d = D(r)
        fs = [f for f in fl if f in d]
        rest = [p for p in r if p[0] not in fs]
        if end:
            out.append(rest + [[f, d[f]] for f in fs])
        else:
            # documented example: reorder -f a,b sends d=4,b=2,a=1,c=3 to a=1,b=2,d=4,c=3
            out.append([[f, d[f]] for f in fs] + rest)
    return out


def m_rename(recs, old, new):
    out = []
    for r in recs:
        out.append([[new if k == old else k, v] for k, v in r])
    return out


def m_label(recs, names):
    out = []
    for r in recs:
        ks = [k for k, _ in r]
        newnames = names[:len(ks)]
        res = collections.OrderedDict()
        for i, (k, v) in enumerate(r):
            if i < len(newnames):
                res[newnames[i]] = v
        for i, (k, v) in enumerate(r):
            if i >= len(newnames) and k not in newnames:
                res[k] = v
        out.append(L(res))
    return out


VERBS = ["cut", "cutx", "cuto", "cutr", "template", "unsparsify", "unsparsify-f", "regularize", "fill-empty", "fill-empty-S", "reorder", "reordere", "rename", "rename-r",
         "rename-roundtrip", "rename-then-cutx", "sort-within-records", "sparsify", "sparsify-f", "label", "cut-partition", "unsparsify-rect", "nest-evar-ivar", "nest-explode-fields",
         "nest-pairs", "reshape-roundtrip", "flatten-unflatten", "json-stringify-parse", "sec2gmt-dsl", "fill-empty-dsl", "sub-dsl", "gsub-dsl", "ssub-dsl", "unspace", "case",
         "altkv", "template-then-rename", "cutf-then-rename-roundtrip"]


@st.composite
def case_strategy(draw):
    return {"recs": draw(stream()), "verb": draw(st.sampled_from(VERBS)), "fl": draw(FLIST), "rpb": draw(st.sampled_from([None, 1, 2]))}


def run(ctx, case, args, recs, jv=True):
    text = "".join(",".join("%s=%s" % (k, v) for k, v in r) + "\n" for r in recs)
    pre = (["--records-per-batch", str(case["rpb"])] if case.get("rpb") else []) + ["--ojsonl"] + (["--jvquoteall"] if jv else [])
    if args and args[0] == "-S":
        pre, args = ["-S"] + pre, args[1:]
    res = ctx.mlr(pre + args, stdin=text.encode())
    if res.rc != 0 or res.panicked or res.timed_out:
        ctx.fail(case, "mlr %r failed rc=%s: %s" % (args, res.rc, res.err[:300].decode("utf-8", "replace")))
    return [json.loads(l, object_pairs_hook=lambda ps: [list(p) for p in ps]) for l in res.out.decode("utf-8").splitlines()]


def expect(ctx, case, args, recs, exp, what=None):
    got = run(ctx, case, args, recs)
    if got != exp:
        i = next((i for i, (a, b) in enumerate(zip(got, exp)) if a != b), min(len(got), len(exp)))
        ctx.fail(case, "%s %r: record %d: expected %r got %r (%d vs %d records); input record %r" % (
            what or "", args, i, exp[i] if i < len(exp) else None, got[i] if i < len(got) else None, len(exp), len(got), recs[i] if i < len(recs) else None))
    return got


def body(ctx, case):
    recs, verb, fl = case["recs"], case["verb"], case["fl"]
    recs = [r for r in recs]
    uniq = list(dict.fromkeys(fl))
    nonempty = [r for r in recs if r]
    changed = True
    if verb == "cut":
        expect(ctx, case, ["cut", "-f", ",".join(fl)], nonempty, m_cut(nonempty, fl))
    elif verb == "cutx":
        expect(ctx, case, ["cut", "-x", "-f", ",".join(fl)], nonempty, m_cut(nonempty, fl, x=True))
    elif verb == "cuto":
        expect(ctx, case, ["cut", "-o", "-f", ",".join(uniq)], nonempty, m_cut(nonempty, uniq, o=True))
    elif verb == "cutr":
        expect(ctx, case, ["cut", "-r", "-f", '^[ab]$,"^W0[0-3]$"i'], nonempty, m_cut(nonempty, ["a", "b", "w00", "w01", "w02", "w03"]))
    elif verb == "template":
        expect(ctx, case, ["template", "-f", ",".join(fl), "--fill-with", "F"], nonempty, m_template(nonempty, fl, "F"))
    elif verb == "unsparsify":
        expect(ctx, case, ["unsparsify", "--fill-with", "F"], nonempty, m_unsparsify(nonempty, "F"))
    elif verb == "unsparsify-f":
        exp = []
        for r in nonempty:
            d = D(r)
            exp.append(r + [[f, "F"] for f in uniq if f not in d])
        expect(ctx, case, ["unsparsify", "--fill-with", "F", "-f", ",".join(uniq)], nonempty, exp)
    elif verb == "regularize":
        expect(ctx, case, ["regularize"], nonempty, m_regularize(nonempty))
    elif verb == "fill-empty":
        expect(ctx, case, ["fill-empty", "-v", "F"], nonempty, [[[k, ("F" if v == "" else v)] for k, v in r] for r in nonempty])
    elif verb == "fill-empty-S":
        expect(ctx, case, ["fill-empty", "-S"], nonempty, [[[k, ("N/A" if v == "" else v)] for k, v in r] for r in nonempty])
    elif verb == "reorder":
        expect(ctx, case, ["reorder", "-f", ",".join(uniq)], nonempty, m_reorder(nonempty, uniq[::-1] if False else uniq) if len(uniq) == 1 else None or _reorder_multi(nonempty, uniq, False))
    elif verb == "reordere":
        expect(ctx, case, ["reorder", "-e", "-f", ",".join(uniq)], nonempty, _reorder_multi(nonempty, uniq, True))
    elif verb == "rename":
        old, new = fl[0], (fl[1] if len(fl) > 1 else "new")
        if old == new or any(new in D(r) for r in nonempty):
            got = run(ctx, case, ["rename", old + "," + new], nonempty)
            # undocumented corner: only bystanders asserted
            for r, g in zip(nonempty, got):
                by = [p for p in r if p[0] not in (old, new)]
                if [p for p in g if p[0] not in (old, new)] != by:
                    ctx.fail(case, "rename %s,%s changed bystander fields: %r -> %r" % (old, new, r, g))
            ctx.case(case, False, labels=(verb + "-dirty",))
            return
        expect(ctx, case, ["rename", old + "," + new], nonempty, m_rename(nonempty, old, new))
    elif verb == "rename-r":
        expect(ctx, case, ["rename", "-r", "^w0(.)$,W_\\1"], nonempty, [[[("W_" + k[2:] if k.startswith("w0") else k), v] for k, v in r] for r in nonempty])
    elif verb == "rename-roundtrip":
        old = fl[0]
        expect(ctx, case, ["rename", old + ",NEWNAME", "then", "rename", "NEWNAME," + old], nonempty, nonempty, "rename a,b then b,a must be the identity when b is new:")
    elif verb == "rename-then-cutx":
        old = fl[0]
        expect(ctx, case, ["rename", old + ",NEWNAME", "then", "cut", "-x", "-f", old], nonempty, m_rename(nonempty, old, "NEWNAME"))
    elif verb == "template-then-rename":
        t = m_template(nonempty, uniq, "F")
        old = uniq[0]
        expect(ctx, case, ["template", "-f", ",".join(uniq), "--fill-with", "F", "then", "rename", old + ",NEWNAME", "then", "rename", "NEWNAME," + old], nonempty, t)
    elif verb == "cutf-then-rename-roundtrip":
        t = m_cut(nonempty, uniq)
        old = uniq[0]
        expect(ctx, case, ["cut", "-f", ",".join(uniq), "then", "rename", old + ",NEWNAME", "then", "put", "$" + old + " = \"n\"", "then", "cut", "-x", "-f", old], nonempty, m_rename(t, old, "NEWNAME"))
    elif verb == "sort-within-records":
        expect(ctx, case, ["sort-within-records"], nonempty, [sorted(r, key=lambda p: p[0].encode()) for r in nonempty])
    elif verb == "sparsify":
        expect(ctx, case, ["sparsify"], nonempty, [[p for p in r if p[1] != ""] for r in nonempty])
    elif verb == "sparsify-f":
        expect(ctx, case, ["sparsify", "-f", ",".join(uniq)], nonempty, [[p for p in r if not (p[1] == "" and p[0] in uniq)] for r in nonempty])
    elif verb == "label":
        expect(ctx, case, ["label", ",".join(uniq)], nonempty, m_label(nonempty, uniq))
    elif verb == "cut-partition":
        a = run(ctx, case, ["cut", "-f", ",".join(fl)], nonempty)
        b = run(ctx, case, ["cut", "-x", "-f", ",".join(fl)], nonempty)
        ea = m_cut(nonempty, fl)
        eb = m_cut(nonempty, fl, x=True)
        if a != ea or b != eb:
            ctx.fail(case, "cut -f F / cut -x -f F do not split records into complementary parts")
        for r, x, y in zip(nonempty, ea, eb):
            if sorted(map(tuple, x + y)) != sorted(map(tuple, r)):
                ctx.fail(case, "model self-check: partition")
    elif verb == "unsparsify-rect":
        got = run(ctx, case, ["unsparsify"], nonempty)
        keys = []
        for r in nonempty:
            for k, _ in r:
                if k not in keys:
                    keys.append(k)
        for g, r in zip(got, nonempty):
            if [k for k, _ in g] != keys:
                ctx.fail(case, "unsparsify output is not rectangular over the union of keys in first-seen order: record keys %r, union %r" % ([k for k, _ in g], keys))
            d = D(r)
            if any(v != d.get(k, "") for k, v in g):
                ctx.fail(case, "unsparsify changed a value: %r -> %r" % (r, g))
    elif verb == "nest-evar-ivar":
        src = [[["id", str(i)], ["x", v], ["o", "k"]] for i, v in enumerate(["a;b;c", "d", "e;f"][:max(1, len(recs) % 4)])]
        exploded = run(ctx, case, ["nest", "--evar", ";", "-f", "x"], src)
        exp = [[["id", r[0][1]], ["x", piece], ["o", "k"]] for r in src for piece in r[1][1].split(";")]
        if exploded != exp:
            ctx.fail(case, "nest --evar: expected %r got %r" % (exp, exploded))
        back = run(ctx, case, ["nest", "--evar", ";", "-f", "x", "then", "nest", "--ivar", ";", "-f", "x"], src)
        if sorted(map(json.dumps, back)) != sorted(map(json.dumps, src)):
            ctx.fail(case, "nest --evar then --ivar does not restore the records: %r -> %r" % (src, back))
    elif verb == "nest-explode-fields":
        src = [[["id", "1"], ["x", "a;b;c"], ["o", "k"]]]
        expect(ctx, case, ["nest", "--explode", "--values", "--across-fields", "-f", "x", "--nested-fs", ";"], src, [[["id", "1"], ["x_1", "a"], ["x_2", "b"], ["x_3", "c"], ["o", "k"]]])
    elif verb == "nest-pairs":
        src = [[["id", "1"], ["x", "a:1;b:2"], ["o", "k"]]]
        expect(ctx, case, ["nest", "--explode", "--pairs", "--across-fields", "-f", "x", "--nested-fs", ";", "--nested-ps", ":"], src, [[["id", "1"], ["a", "1"], ["b", "2"], ["o", "k"]]])
        expect(ctx, case, ["nest", "--explode", "--pairs", "--across-records", "-f", "x", "--nested-fs", ";", "--nested-ps", ":"], src, [[["id", "1"], ["a", "1"], ["o", "k"]], [["id", "1"], ["b", "2"], ["o", "k"]]])
    elif verb == "reshape-roundtrip":
        n = max(1, len(recs))
        src = [[["id", str(i)], ["x", str(i * 2)], ["y", str(i * 3 + 1)], ["o", "q"]] for i in range(n)]
        long = run(ctx, case, ["reshape", "-i", "x,y", "-o", "key,value"], src)
        exp = [[["id", r[0][1]], ["o", "q"], ["key", k], ["value", dict(map(tuple, r))[k]]] for r in src for k in ("x", "y")]
        if long != exp:
            ctx.fail(case, "reshape wide-to-long: expected %r got %r" % (exp[:3], long[:3]))
        back = run(ctx, case, ["reshape", "-i", "x,y", "-o", "key,value", "then", "reshape", "-s", "key,value"], src)
        exp2 = [[["id", r[0][1]], ["o", "q"], ["x", r[1][1]], ["y", r[2][1]]] for r in src]
        if back != exp2:
            ctx.fail(case, "reshape long-to-wide o wide-to-long: expected %r got %r" % (exp2[:3], back[:3]))
    elif verb == "flatten-unflatten":
        text = '{"id": 1, "m": {"x": {"y": 2, "z": [3, 4]}, "e": {}}, "s": "t"}\n'
        r1 = ctx.mlr(["--json", "flatten", "then", "unflatten"], stdin=text.encode())
        r0 = ctx.mlr(["--json", "cat"], stdin=text.encode())
        if r1.rc != 0 or r1.out != r0.out:
            ctx.fail(case, "flatten then unflatten is not the identity: %r" % r1.out[:200])
        r2 = ctx.mlr(["--ijson", "--ojson", "flatten", "-s", ":"], stdin=text.encode())
        if b'"m:x:y": 2' not in r2.out or b'"m:e": "{}"' not in r2.out:
            ctx.fail(case, "flatten -s : gave %r" % r2.out[:300])
    elif verb == "json-stringify-parse":
        text = '{"id": 1, "m": {"x": {"y": 2, "z": [3, 4]}, "e": {}}, "s": "t"}\n'
        r1 = ctx.mlr(["--json", "json-stringify", "-f", "m", "then", "json-parse", "-f", "m"], stdin=text.encode())
        r0 = ctx.mlr(["--json", "cat"], stdin=text.encode())
        if r1.rc != 0 or r1.out != r0.out:
            ctx.fail(case, "json-stringify then json-parse is not the identity: %r" % r1.out[:200])
    elif verb == "sec2gmt-dsl":
        src = [[["t", v], ["o", "x"]] for v in ["0", "1500000000", "-1", "1.5", "17e8", "0x10"]]
        nn = [[["t", v], ["o", "x"]] for v in ["abc", "", "1.2.3", "true"]]
        if run(ctx, case, ["sec2gmt", "-3", "t"], nn) != nn or run(ctx, case, ["sec2gmt", "t"], nn) != nn:
            ctx.fail(case, "sec2gmt verb must leave non-numeric values unchanged")
        a = run(ctx, case, ["sec2gmt", "t"], src)
        b = run(ctx, case, ["put", "$t = sec2gmt($t)"], src)
        if a != b:
            ctx.fail(case, "sec2gmt verb differs from put '$t = sec2gmt($t)': %r vs %r" % (a, b))
        a3 = run(ctx, case, ["sec2gmt", "-3", "t"], src)
        b3 = run(ctx, case, ["put", "$t = sec2gmt($t, 3)"], src)
        if a3 != b3:
            ctx.fail(case, "sec2gmt -3 verb differs from sec2gmt($t, 3): %r vs %r" % (a3, b3))
    elif verb == "fill-empty-dsl":
        a = run(ctx, case, ["fill-empty", "-v", "X", "-S"], nonempty)
        b = run(ctx, case, ["put", '$* = apply($*, func(k,v) {return {k: is_empty(v) ? "X" : v}})'], nonempty)
        if a != b:
            ctx.fail(case, "fill-empty differs from its DSL equivalent: %r vs %r" % (a[:2], b[:2]))
    elif verb in ("sub-dsl", "gsub-dsl", "ssub-dsl"):
        fn = verb.split("-")[0]
        pat = {"sub": "[a-z]", "gsub": "[a-z]", "ssub": "."}[fn]
        f = uniq[0]
        # -S: the functions are defined on strings (a number-typed argument is an error); from-data numbers are made strings for both sides
        a = run(ctx, case, ["-S", fn, "-f", f, pat, "Q"], nonempty)
        b = run(ctx, case, ["-S", "put", 'if (is_present($%s)) {$%s = %s($%s, "%s", "Q")}' % (f, f, fn, f, pat)], nonempty)
        if a != b:
            ctx.fail(case, "%s verb differs from the %s() function on field %s: %r vs %r" % (fn, fn, f, a[:3], b[:3]))
        for r, g in zip(nonempty, a):
            if [p for p in g if p[0] != f] != [p for p in r if p[0] != f]:
                ctx.fail(case, "%s -f %s changed another field: %r -> %r" % (fn, f, r, g))
    elif verb == "unspace":
        expect(ctx, case, ["unspace"], nonempty, [[[k.replace(" ", "_"), v.replace(" ", "_")] for k, v in r] for r in nonempty])
    elif verb == "case":
        expect(ctx, case, ["-S", "case", "-u", "-v", "-f", ",".join(uniq)], nonempty, [[[k, (v.upper() if k in uniq else v)] for k, v in r] for r in nonempty])
        expect(ctx, case, ["-S", "case", "-u", "-k", "-f", ",".join(uniq)], nonempty, [[[(k.upper() if k in uniq else k), v] for k, v in r] for r in nonempty])
    elif verb == "altkv":
        src = [[["1", "a"], ["2", "b"], ["3", "c"], ["4", "d"]], [["1", "a"], ["2", "b"], ["3", "c"]]]
        expect(ctx, case, ["altkv"], src, [[["a", "b"], ["c", "d"]], [["a", "b"], ["2", "c"]]])
    else:
        raise ValueError(verb)
    ctx.case(case, len(nonempty) >= 1 and any(len(r) >= 2 for r in nonempty), labels=(verb, "wide" if any(len(r) >= 12 for r in recs) else "narrow"),
             sample={"verb": verb, "fl": fl, "first": nonempty[0][:4] if nonempty else None})


def _reorder_multi(recs, fl, end):
    """reorder -f a,b: documented example puts a first then b (d=4,b=2,a=1,c=3 -> a=1,b=2,d=4,c=3); -e puts them last in list order."""
    out = []
    for r in recs:
        d = D(r)
        fs = [f for f in fl if f in d]
        rest = [p for p in r if p[0] not in fs]
        if end:
            out.append(rest + [[f, d[f]] for f in fs])
        else:
            out.append([[f, d[f]] for f in fs] + rest)
    return out


def sub_verbs(ctx):
    ctx.hyp(case_strategy(), lambda c: body(ctx, c), ctx.n(6000, 60000))


SUBCHECKS = [
    Sub("restructuring_verbs", sub_verbs, body, shards={"quick": 12, "thorough": 16}, cost=3, rule=RULE),
]

KNOWN = {}
