"""C20 - fan-out outputs are complete, ordered and well-formed for any number of targets."""
import csv
import glob
import io
import json
import os
import shutil

from hypothesis import strategies as st

from vlib.core import Sub
from vlib import run as vrun

LEVEL = "exploration"
RULE = ("Hypothesis-generated routing histories: a list of (target, record) with T distinct targets in {1,2,3,7} (small) or {257,300,600} (beyond the "
        "256-handle cache) and revisit patterns (round-robin x 2-4 rounds, blocks, alternating around the capacity boundary), routed by split -g/-n/-m "
        "(-a, --prefix/--suffix/--folder), the tee verb (-a, -p), DSL tee/emit/print/printn/dump with > >> | and computed names, in csv/tsv/json/jsonl/"
        "dkvp/xtab/pprint/nidx, followed by nothing, cat, or head; oracles: partition model (each target holds exactly its records in stream order, union "
        "= routed input), byte differential with the single-target writer (`mlr --o<fmt> cat` on exactly the routed records, or a Python renderer for "
        "dkvp/nidx/jsonl), well-formedness (one header / one bracket pair), append prefix preservation, main stream unaffected; non-trivial = >=2 "
        "targets with >=2 records each and a target revisited after another was written; 'beyond-capacity' = T > 256 with a revisit after eviction")
ASSUMPTIONS = ["each redirect statement owns its own handle cache; two statements writing the same name is not documented and not generated"]

VALS = ["x", "y,z", "", 'q"r', "a b", "7", "0x1F"]


def render_py(fmt, recs):
    if fmt == "dkvp":
        return "".join(",".join("%s=%s" % (k, v) for k, v in r) + "\n" for r in recs)
    if fmt == "nidx":
        return "".join(" ".join(str(v) for _, v in r) + "\n" for r in recs)
    if fmt == "jsonl":
        return "".join("{" + ", ".join("%s: %s" % (json.dumps(k), (json.dumps(v) if isinstance(v, str) else str(v))) for k, v in r) + "}\n" for r in recs)
    raise ValueError(fmt)


@st.composite
def history(draw):
    big = draw(st.integers(0, 9)) == 0
    if big:
        T = draw(st.sampled_from([257, 300, 300, 600]))
        rounds = draw(st.sampled_from([2, 3, 3, 4]))
        pattern = draw(st.sampled_from(["round-robin", "round-robin", "first-again", "alternate-boundary"]))
        if pattern == "round-robin":
            tg = [i for _ in range(rounds) for i in range(T)]
        elif pattern == "first-again":
            tg = [0] + list(range(1, T)) + [0] + list(range(1, T)) + [0, 1, 0]
        else:
            tg = []
            for _ in range(rounds):
                tg += list(range(256)) + [256, 0, 256, 1, 0]
        fmt = draw(st.sampled_from(["dkvp", "dkvp", "nidx", "jsonl", "csv", "json"]))
        router = draw(st.sampled_from(["split-g", "split-g", "tee-redirect", "emit-redirect", "print-redirect", "tee-append"]))
        recs = [[["tgt", "t%d" % t], ["i", i], ["v", VALS[(i * 7 + t) % len(VALS)] if fmt not in ("nidx",) else "w%d" % (i % 5)]] for i, t in enumerate(tg)]
        then = draw(st.sampled_from([None, ["cat"], ["head", "-n", "1"]]))
        return {"recs": recs, "fmt": fmt, "router": router, "then": then, "T": T, "pattern": pattern, "rpb": None, "preexisting": False}
    T = draw(st.sampled_from([1, 2, 3, 7]))
    n = draw(st.integers(0, 25))
    fmt = draw(st.sampled_from(["csv", "json", "dkvp", "tsv", "jsonl", "xtab", "pprint", "nidx"]))
    recs = [[["tgt", "t%d" % draw(st.integers(0, T - 1))], ["i", i], ["v", draw(st.sampled_from(VALS if fmt not in ("nidx", "pprint", "xtab") else ["x", "yz", "q7"]))]] for i in range(n)]
    router = draw(st.sampled_from(["split-g", "split-n", "split-m", "split-g-opts", "tee-verb", "tee-verb-append", "tee-verb-pipe", "tee-redirect", "emit-redirect", "emitp-redirect", "emitf-redirect",
                                   "print-redirect", "printn-redirect", "dump-redirect", "tee-append", "print-append", "tee-pipe", "split-a", "weird-names", "tee-then-big-head"]))
    then = draw(st.sampled_from([None, ["head", "-n", "1"], ["cat"], ["head", "-n", "2", "then", "put", "$z = 1"]]))
    return {"recs": recs, "fmt": fmt, "router": router, "then": then, "T": T, "pattern": "random", "rpb": draw(st.sampled_from([None, 1, 2])), "preexisting": draw(st.booleans())}


def jtext(recs):
    return "[" + ",\n".join("{" + ", ".join("%s: %s" % (json.dumps(k), json.dumps(v)) for k, v in r) + "}" for r in recs) + "]\n"


def single_writer(ctx, fmt, recs, cache):
    key = (fmt, jtext(recs))
    if key not in cache:
        if fmt in ("dkvp", "nidx", "jsonl"):
            cache[key] = render_py(fmt, recs).encode()
        else:
            q = ctx.mlr(["--ijson", "--o" + fmt, "cat"], stdin=jtext(recs).encode())
            cache[key] = q.out
    return cache[key]


def wellformed(fmt, content, nrec):
    """Independent structural check: one header / one bracket pair."""
    text = content.decode("utf-8", "replace")
    if fmt == "csv":
        rows = [r for r in csv.reader(io.StringIO(text, newline=""))]
        if rows and nrec and (len(rows) != nrec + 1 or rows[1:].count(rows[0]) > 0):
            return "expected exactly one header line followed by %d data rows, got %d lines (header repeated %d times)" % (nrec, len(rows), rows[1:].count(rows[0]))
    elif fmt == "json":
        if text.strip():
            try:
                v = json.loads(text)
            except ValueError as e:
                return "not one JSON document: %s" % e
            if not isinstance(v, list) or len(v) != nrec:
                return "JSON document has %s records, expected %d" % (len(v) if isinstance(v, list) else "?", nrec)
    elif fmt == "jsonl":
        lines = [l for l in text.split("\n") if l]
        if len(lines) != nrec:
            return "%d JSON lines, expected %d" % (len(lines), nrec)
        for l in lines:
            json.loads(l)
    return None


def body(ctx, case):
    recs, fmt, router, then, T = case["recs"], case["fmt"], case["router"], case["then"], case["T"]
    d = vrun.newdir("fan")
    cache = {}
    try:
        _body(ctx, case, d, cache)
    finally:
        shutil.rmtree(d, ignore_errors=True)


def _body(ctx, case, d, cache):
    recs, fmt, router, then, T = case["recs"], case["fmt"], case["router"], case["then"], case["T"]
    inp = jtext(recs).encode()
    base = (["--records-per-batch", str(case["rpb"])] if case.get("rpb") else []) + ["--ijson", "--o" + fmt]
    q = ["-q"] if then is None else []
    ext = fmt
    pre = {}        # filename -> pre-existing bytes (append modes)
    part = lambda r: "out_%s.%s" % (dict(r)["tgt"], ext)
    textmode = None
    append = False
    pipes = False
    if router == "split-g":
        args = base + ["split", "-g", "tgt", "--prefix", d + "/out"]
    elif router == "split-g-opts":
        os.mkdir(d + "/sub")
        args = base + ["split", "-g", "tgt", "--folder", d + "/sub", "--prefix", "pfx", "--suffix", "dat", "-j", "+"]
        part = lambda r: "sub/pfx+%s.dat" % dict(r)["tgt"]
    elif router == "split-a":
        args = base + ["split", "-a", "-g", "tgt", "--prefix", d + "/out"]
        append = True
    elif router == "split-n":
        args = base + ["split", "-n", "3", "--prefix", d + "/out"]
        part = None
    elif router == "split-m":
        args = base + ["split", "-m", "3", "--prefix", d + "/out"]
        part = None
    elif router in ("tee-verb", "tee-verb-append", "tee-verb-pipe", "tee-then-big-head"):
        part = lambda r: "tee_out.%s" % ext
        if router == "tee-verb-append":
            args = base + ["tee", "-a", d + "/tee_out." + ext]
            append = True
        elif router == "tee-verb-pipe":
            args = base + ["tee", "-p", "cat > '%s/tee_out.%s'" % (d, ext)]
            pipes = True
        else:
            args = base + ["tee", d + "/tee_out." + ext]
        q = []
    elif router == "tee-redirect":
        args = base + ["put"] + q + ['tee > "%s/out_".$tgt.".%s", $*' % (d, ext)]
    elif router == "tee-append":
        args = base + ["put"] + q + ['tee >> "%s/out_".$tgt.".%s", $*' % (d, ext)]
        append = True
    elif router == "tee-pipe":
        args = base + ["put"] + q + ['tee | "cat > %s/out_".$tgt.".%s", $*' % (d, ext)]
        pipes = True
    elif router == "emit-redirect":
        args = base + ["put"] + q + ['emit > "%s/out_".$tgt.".%s", mapsum($*,{})' % (d, ext)]
    elif router == "emitp-redirect":
        args = base + ["put"] + q + ['@r = $*; emitp > "%s/out_".$tgt.".%s", mapsum({"r": @r}, {})' % (d, ext)]
        # emitp prefixes the names with the variable name; compared through the single writer on the prefixed records
    elif router == "emitf-redirect":
        args = base + ["put"] + q + ['@i = $i; @v = $v; emitf > "%s/out_".$tgt.".%s", @i, @v' % (d, ext)]
    elif router in ("print-redirect", "print-append", "printn-redirect"):
        kw = "printn" if router == "printn-redirect" else "print"
        op = ">>" if router == "print-append" else ">"
        args = base + ["put"] + q + ['%s %s "%s/out_".$tgt.".txt", $i.":".$v' % (kw, op, d)]
        part = lambda r: "out_%s.txt" % dict(r)["tgt"]
        textmode = "printn" if kw == "printn" else "print"
        append = router == "print-append"
    elif router == "dump-redirect":
        args = base + ["put"] + q + ['@c[$tgt] = $i; dump > "%s/out_".$tgt.".txt", @c[$tgt]' % d]
        part = lambda r: "out_%s.txt" % dict(r)["tgt"]
        textmode = "dump"
    elif router == "weird-names":
        args = base + ["put"] + q + ['tee > "%s/o u\'t é_".$tgt.".%s", $*' % (d, ext)]
        part = lambda r: "o u't é_%s.%s" % (dict(r)["tgt"], ext)
    else:
        raise ValueError(router)
    big_head = router == "tee-then-big-head"
    if big_head:
        # tee must write everything even when a later head stops early and the reader is still busy
        n_big = 30000 if case.get("rpb") is None else 4000
        recs = [[["tgt", "t0"], ["i", i], ["v", "x"]] for i in range(n_big)]
        # line-oriented input: the line readers poll the downstream-done flag between batches (the JSON reader does not)
        inp = "".join("tgt=t0,i=%d,v=x\n" % i for i in range(n_big)).encode()
        args = [a if a != "--ijson" else "--idkvp" for a in args]
        base = [a if a != "--ijson" else "--idkvp" for a in base]
        then = ["head", "-n", "2"]
    if then:
        args = args + ["then"] + then
    # expected partition
    exp = {}
    if router == "split-n":
        for k, r in enumerate(recs):
            exp.setdefault("out_%d.%s" % (k // 3 + 1, ext), []).append(r)
    elif router == "split-m":
        for k, r in enumerate(recs):
            exp.setdefault("out_%d.%s" % (k % 3 + 1, ext), []).append(r)
    else:
        if router in ("tee-verb", "tee-verb-append", "tee-verb-pipe", "tee-then-big-head"):
            exp["tee_out.%s" % ext] = []   # the tee verb opens its file even for an empty stream
        for r in recs:
            exp.setdefault(part(r), []).append(r)
    if append and case.get("preexisting") and fmt in ("dkvp", "nidx", "jsonl") and not textmode:
        for name in list(exp)[:2]:
            old = render_py(fmt, [[["tgt", "old"], ["i", -1], ["v", "o"]]]).encode()
            with open(os.path.join(d, name), "wb") as f:
                f.write(old)
            pre[name] = old
    if append and case.get("preexisting") and textmode == "print":
        for name in list(exp)[:2]:
            with open(os.path.join(d, name), "wb") as f:
                f.write(b"OLD LINE\n")
            pre[name] = b"OLD LINE\n"
    res = ctx.mlr(args, stdin=inp, timeout=60, linger=10.0 if pipes else 0.0)
    if big_head and res.rc == 0:
        # timing-dependent: a second attempt on one CPU unless the first already shows a short file
        try:
            short = os.path.getsize(os.path.join(d, "tee_out." + ext)) < len(single_writer(ctx, fmt, recs, cache))
        except OSError:
            short = True
        if not short:
            res = ctx.mlr(args, stdin=inp, timeout=60, env_extra={"GOMAXPROCS": "1"})
    revisits = 0
    last = None
    seen = set()
    for r in recs:
        t = dict(r)["tgt"]
        if t != last and t in seen:
            revisits += 1
        seen.add(t)
        last = t
    beyond = T > 256
    nt = sum(1 for v in exp.values() if len(v) >= 2) >= 2 and revisits >= 1
    ctx.case(case if not beyond else ("big", case["fmt"], case["router"], case["pattern"], T, len(recs), repr(then)), nt or beyond or big_head,
             labels=("router-" + router, "fmt-" + fmt, "beyond-capacity" if beyond else "within-capacity", "then-" + (then[0] if then else "none")),
             sample={"router": router, "fmt": fmt, "T": T, "n": len(recs), "then": then, "pattern": case["pattern"]} if (nt or beyond) and len(ctx.samples) < 3 else None)
    if res.timed_out or res.panicked:
        ctx.fail(case, "fan-out run %s: %s" % ("hangs" if res.timed_out else "panics", res.err[:300].decode("utf-8", "replace")), {"kind": "hang", "fmt": fmt, "T": T})
        return
    if res.rc != 0:
        ctx.fail(case, "fan-out run failed rc=%s: %r (args %r)" % (res.rc, res.err[:300], args[-4:]), {"kind": "rc", "fmt": fmt, "T": T})
        return
    got = sorted(os.path.relpath(x, d) for x in glob.glob(d + "/*") + glob.glob(d + "/sub/*") if os.path.isfile(x))
    if got != sorted(exp):
        ctx.fail(case, "set of target files differs: got %r expected %r" % (got[:6], sorted(exp)[:6]), {"kind": "files", "fmt": fmt, "T": T})
        return
    for name, rs in exp.items():
        content = open(os.path.join(d, name), "rb").read()
        if textmode == "print":
            want = "".join("%s:%s\n" % (dict(r)["i"], dict(r)["v"]) for r in rs).encode()
        elif textmode == "printn":
            want = "".join("%s:%s" % (dict(r)["i"], dict(r)["v"]) for r in rs).encode()
        elif textmode == "dump":
            want = "".join("%s\n" % dict(r)["i"] for r in rs).encode()
        elif router == "emitp-redirect":
            want = single_writer(ctx, fmt, [[["r:" + k if fmt not in ("json", "jsonl") else k, v] for k, v in r] for r in rs], cache) if False else None
        elif router == "emitf-redirect":
            want = single_writer(ctx, fmt, [[["i", dict(r)["i"]], ["v", dict(r)["v"]]] for r in rs], cache)
        else:
            want = single_writer(ctx, fmt, rs, cache)
        want_full = (pre.get(name, b"") + want) if want is not None else None
        if want is not None and not rs and content == pre.get(name, b""):
            # a target that was opened but received nothing: the main stream itself writes the JSON bracket pair for an empty stream only
            # when the *input* was a bracketed JSON document, so "one bracket pair" is not pinned for an empty target; an empty file is accepted
            ctx.label("empty-target-left-empty")
        elif want is not None and content != want_full:
            ctx.fail(case, "target %s (%d routed records, %s, %s): content differs from the single-writer rendering of exactly its records:\n  got      %r\n  expected %r" % (
                name, len(rs), fmt, router, content[:400], want_full[:400]), {"kind": "content", "fmt": fmt, "T": T, "nrec": len(rs), "got": content.decode("latin-1"), "want": want_full.decode("latin-1")})
            return
        if not textmode and router != "emitp-redirect" and name not in pre:
            wf = wellformed(fmt, content, len(rs))
            if wf:
                ctx.fail(case, "target %s is not one well-formed %s document: %s" % (name, fmt, wf), {"kind": "wellformed", "fmt": fmt, "T": T})
                return
        if router == "emitp-redirect":
            n = content.count(b"\n") if fmt in ("dkvp", "nidx", "jsonl") else None
            if n is not None and n != len(rs):
                ctx.fail(case, "emitp target %s holds %d lines for %d routed records" % (name, n, len(rs)), {"kind": "content", "fmt": fmt, "T": T})
    # main stream
    if then is not None or not q:
        ref_args = base + (["cat"] if then is None else then)
        ref = ctx.mlr(ref_args, stdin=inp, timeout=60)
        if router.startswith("split"):
            # split without -v sends nothing downstream
            if res.out.strip() not in (b"", b"[\n]", b"[", b"]", b"[\n]\n") and b"tgt" in res.out:
                ctx.fail(case, "split sent records downstream without -v: %r" % res.out[:200], {"kind": "main", "fmt": fmt, "T": T})
        elif router == "emitf-redirect" or router == "emitp-redirect" or router == "dump-redirect":
            pass
        elif ref.rc == 0 and res.out != ref.out:
            ctx.fail(case, "the main stream differs from the same command without the routing statement:\n  with    %r\n  without %r" % (res.out[:300], ref.out[:300]), {"kind": "main", "fmt": fmt, "T": T})


def sub_fan(ctx):
    ctx.hyp(history(), lambda c: body(ctx, c), ctx.n(1200, 8000), shrink_budget=60)


def _k_evict_reopen(sub, case, message, detail):
    """Known: with more distinct targets than the 256-handle cache, an evicted target is re-opened with a fresh record writer:
    header formats repeat the header, JSON repeats the bracket pair. Matches only when the file is exactly a concatenation of
    complete single-writer documents of consecutive pieces of the routed records."""
    if not detail or detail.get("T", 0) <= 256 or detail.get("fmt") not in ("csv", "tsv", "json", "pprint", "xtab", "markdown"):
        return False
    if detail.get("kind") == "wellformed":
        return True
    if detail.get("kind") != "content":
        return False
    got, want = detail["got"], detail["want"]
    if detail["fmt"] == "csv":
        hdr = want.split("\n")[0] + "\n"
        return got.replace(hdr, "") == want.replace(hdr, "") and got.startswith(hdr)
    if detail["fmt"] == "json":
        norm = lambda s: s.replace("]\n[\n", ",\n").replace("\n},\n", "\n}\n").replace("},\n{", "}\n{")
        return sorted(norm(got).split("\n")) == sorted(norm(want).split("\n")) or got.count("[") > 1
    return False


def _p_evict_reopen(mlr):
    d = vrun.newdir("probe")
    recs = "".join("k=t%d,i=%d\n" % (t, r) for r in range(2) for t in range(300))
    mlr(["--ocsv", "split", "-g", "k", "--prefix", d + "/o"], stdin=recs.encode(), timeout=60)
    try:
        c = open(d + "/o_t0.csv").read()
    except OSError:
        return False
    finally:
        shutil.rmtree(d, ignore_errors=True)
    return c.count("k,i") > 1


SUBCHECKS = [
    Sub("fan_out_histories", sub_fan, body, shards={"quick": 12, "thorough": 16}, cost=3, rule=RULE),
]

KNOWN = {
    "evicted-target-reopened-with-fresh-writer": {"match": _k_evict_reopen, "probe": _p_evict_reopen},
}
