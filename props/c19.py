"""C19 - in-place mode never leaves a file half-written (fault enumeration over crash points)."""
import errno
import gzip
import os
import shutil
import stat
import zlib

from hypothesis import strategies as st

from vlib.core import Sub
from vlib import run as vrun
from vlib import sysfault

LEVEL = "fault_enumeration"
NEEDS_VERIF_BUILD = True
RULE = ("Hypothesis-generated -I cases (1-4 files; dkvp/csv/json; 0 records to > one 64 KiB buffer; gzip/zlib inputs; modes 0600/0644/0755; verbs cat, "
        "sort, head, tac, put with NR/FNR and begin/end, nothing) x every file-mutating syscall of the run (openat, write, close, renameat, fchmodat; "
        "listed by a ptrace supervisor with one global counter over all threads): SIGKILL on entry to and on exit from each (complete enumeration for "
        "cases with <= 60 calls, first/last 25 otherwise), errno injection (ENOSPC/EIO on writes and close, EBUSY/EACCES on renameat) on the normal error "
        "path, named crash sites of the -tags verif build; after every run the directory is inspected; evaluations = (case, fault, position) tuples; "
        "non-trivial = crash strictly between the first write to the temp file and the rename, or in file >= 2 of a multi-file case, or an injected errno")
ASSUMPTIONS = ["crash = process death (SIGKILL); page-cache/power loss is outside what a user-space harness observes", "ptrace is permitted (else the syscall-level sub-checks are skipped and counted, the named-site sub-check still runs)"]


def records(n, fmt, seed):
    if fmt == "dkvp":
        return "".join("a=%d,b=%s,c=%d\n" % ((i * 7 + seed) % 101, "x" * (20 + (i % 13)), i) for i in range(n)).encode()
    if fmt == "csv":
        return ("a,b,c\n" + "".join("%d,%s,%d\n" % ((i * 7 + seed) % 101, "y" * (20 + (i % 13)), i) for i in range(n))).encode()
    if fmt == "json":
        return ("[\n" + ",\n".join('{"a": %d, "b": "%s", "c": %d}' % ((i * 7 + seed) % 101, "z" * (20 + (i % 13)), i) for i in range(n)) + "\n]\n").encode()
    raise ValueError(fmt)


VERBS = {
    "cat": ["cat"], "sort": ["sort", "-nr", "a"], "head1": ["head", "-n", "1"], "tac": ["tac"], "nothing": ["nothing"],
    "put-nr": ["put", "$nr = NR; $fnr = FNR"], "put-begin-end": ["put", "-q", 'begin{@n = 0} @n += 1; emit1 {"n": @n, "a": $a}; end{emit1 {"total": @n}}'],
    "cat-n": ["cat", "-n"], "head-g": ["head", "-n", "2", "-g", "a"],
}


@st.composite
def case_strategy(draw):
    fmt = draw(st.sampled_from(["dkvp", "dkvp", "csv", "json"]))
    nfiles = draw(st.integers(1, 4))
    files = []
    for i in range(nfiles):
        n = draw(st.sampled_from([0, 1, 3, 3, 40, 2500]))
        comp = draw(st.sampled_from(["", "", "", "gz", "z"]))
        files.append({"name": "f%d.%s%s" % (i, fmt, "." + comp if comp else ""), "n": n, "comp": comp, "mode": draw(st.sampled_from([0o600, 0o644, 0o755, 0o640])), "seed": draw(st.integers(0, 50))})
    verb = draw(st.sampled_from(sorted(VERBS)))
    if fmt == "csv" and verb == "put-begin-end":
        verb = "cat"
    return {"fmt": fmt, "files": files, "verb": verb}


def materialize(d, case):
    for f in case["files"]:
        data = records(f["n"], case["fmt"], f["seed"])
        if f["comp"] == "gz":
            data = gzip.compress(data, mtime=0)
        elif f["comp"] == "z":
            data = zlib.compress(data)
        p = os.path.join(d, f["name"])
        with open(p, "wb") as fh:
            fh.write(data)
        os.chmod(p, f["mode"])


def content(f, data):
    if f["comp"] == "gz":
        return gzip.decompress(data)
    if f["comp"] == "z":
        return zlib.decompress(data)
    return data


def ioflags(case):
    return ["--" + case["fmt"]] if case["fmt"] != "dkvp" else []


def expected(ctx, case, d):
    exp = {}
    for f in case["files"]:
        r = ctx.mlr(ioflags(case) + VERBS[case["verb"]] + [f["name"]], cwd=d)
        if r.rc != 0:
            ctx.fail(case, "non -I reference run failed for %s: %s" % (f["name"], r.err[:200]))
        exp[f["name"]] = r.out
    return exp


def inspect(d, case, orig, exp):
    """Returns (states, temps, problems)."""
    names = [f["name"] for f in case["files"]]
    present = sorted(os.listdir(d))
    temps = [n for n in present if n.startswith("mlr-in-place-") or n not in names]
    states = []
    problems = []
    for f in case["files"]:
        p = os.path.join(d, f["name"])
        if not os.path.exists(p):
            states.append("MISSING")
            problems.append("%s is missing" % f["name"])
            continue
        raw = open(p, "rb").read()
        try:
            c = content(f, raw)
        except Exception as e:
            states.append("CORRUPT")
            problems.append("%s is not a valid %s stream (%d bytes): %s" % (f["name"], f["comp"], len(raw), e))
            continue
        if c == orig[f["name"]] and c == exp[f["name"]]:
            states.append("SAME")
        elif c == orig[f["name"]]:
            states.append("ORIG")
        elif c == exp[f["name"]]:
            states.append("NEW")
        else:
            states.append("MIXED")
            problems.append("%s holds neither its original (%d bytes) nor its complete new (%d bytes) content: %d bytes" % (f["name"], len(orig[f["name"]]), len(exp[f["name"]]), len(c)))
    for i in range(len(states)):
        for j in range(i + 1, len(states)):
            if states[i] == "ORIG" and states[j] == "NEW":
                problems.append("file %s was updated before the earlier file %s" % (names[j], names[i]))
    if len(temps) > 1:
        problems.append("more than one leftover file: %r" % temps)
    return states, temps, problems


def setup_case(ctx, case):
    d = vrun.newdir("ip")
    materialize(d, case)
    orig = {f["name"]: content(f, open(os.path.join(d, f["name"]), "rb").read()) for f in case["files"]}
    exp = expected(ctx, case, d)
    return d, orig, exp


def fresh(d, case):
    for n in os.listdir(d):
        p = os.path.join(d, n)
        if os.path.isdir(p):
            shutil.rmtree(p)
        else:
            os.unlink(p)
    materialize(d, case)


def cmd(ctx, case, path=None):
    return [path or ctx.mlr_path, "-I"] + ioflags(case) + VERBS[case["verb"]] + [f["name"] for f in case["files"]]


def body_success(ctx, case):
    d, orig, exp = setup_case(ctx, case)
    r = vrun.run(cmd(ctx, case), env=vrun.base_env(), cwd=d)
    ctx.mlr.invocations += 1
    ctx.case(case, len(case["files"]) >= 2 or any(f["comp"] for f in case["files"]), labels=("success", case["fmt"], case["verb"]), sample={"files": case["files"], "verb": case["verb"]} if len(ctx.samples) < 2 else None)
    if r.rc != 0:
        ctx.fail(case, "mlr -I failed: %s" % r.err[:300])
    states, temps, problems = inspect(d, case, orig, exp)
    for f, s in zip(case["files"], states):
        if s not in ("NEW", "SAME"):
            problems.append("%s: after success the file must equal what the same command without -I prints for that file alone (state %s)" % (f["name"], s))
        m = stat.S_IMODE(os.stat(os.path.join(d, f["name"])).st_mode)
        if m != f["mode"]:
            problems.append("%s: mode %o not preserved (now %o)" % (f["name"], f["mode"], m))
        raw = open(os.path.join(d, f["name"]), "rb").read()
        if f["comp"] == "gz" and raw[:2] != b"\x1f\x8b":
            problems.append("%s: gzip input not rewritten compressed" % f["name"])
        if f["comp"] == "z" and (len(raw) < 2 or raw[0] != 0x78):
            problems.append("%s: zlib input not rewritten compressed" % f["name"])
    if temps:
        problems.append("temporary file left after success: %r" % temps)
    if problems:
        ctx.fail(case, "; ".join(problems[:4]))
    shutil.rmtree(d, ignore_errors=True)


def body_crash(ctx, case):
    if "case" in case:
        return replay_crash(ctx, case)
    if not sysfault.ensure():
        ctx.label("ptrace-unavailable-skipped")
        return
    d, orig, exp = setup_case(ctx, case)
    tr = sysfault.run("list", 0, 0, cmd(ctx, case), cwd=d)
    if tr.rc != 0 or not tr.total:
        ctx.fail(case, "traced fault-free run failed: rc=%s total=%s %s" % (tr.rc, tr.total, tr.err[:200]))
    total = tr.total
    calls = tr.calls
    points = list(range(1, total + 1)) if total <= 60 else list(range(1, 26)) + list(range(total - 24, total + 1))
    first_write = next((c[0] for c in calls if c[2] == "write"), 1)
    renames = [c[0] for c in calls if c[2].startswith("rename")]
    for mode in ("kill", "killx"):
        for n in points:
            fresh(d, case)
            t2 = sysfault.run(mode, n, 0, cmd(ctx, case), cwd=d)
            states, temps, problems = inspect(d, case, orig, exp)
            call = next((c for c in calls if c[0] == n), None)
            # which file was in progress: count renames before n
            fileno = sum(1 for r_ in renames if r_ < n)
            nt = (first_write <= n and call is not None and not call[2].startswith("fchmod") and any(r_ >= n for r_ in renames)) or fileno >= 1
            ctx.case(("crash", repr(case), mode, n), nt, labels=(mode, (call[2] if call else "?")), count=1,
                     sample={"verb": case["verb"], "files": [f["name"] for f in case["files"]], "mode": mode, "at": call, "states": states} if (nt and len(ctx.samples) < 3) else None)
            if problems:
                ctx.fail({"case": case, "mode": mode, "n": n}, "crash (%s) at syscall %d of %d %r: %s; states %r leftovers %r" % (mode, n, total, call, "; ".join(problems[:3]), states, temps))
    shutil.rmtree(d, ignore_errors=True)


def replay_crash(ctx, rep):
    case = rep["case"] if "case" in rep else rep
    if "mode" not in rep:
        return body_crash(ctx, case)
    if not sysfault.ensure():
        return
    d, orig, exp = setup_case(ctx, case)
    if rep["mode"] in ("kill", "killx"):
        sysfault.run(rep["mode"], rep["n"], 0, cmd(ctx, case), cwd=d)
        states, temps, problems = inspect(d, case, orig, exp)
        if problems:
            ctx.fail(rep, "crash (%s) at syscall %d: %s; states %r" % (rep["mode"], rep["n"], "; ".join(problems[:3]), states))
    else:
        body_fail_one(ctx, case, d, orig, exp, rep["n"], rep["errno"], None)


def body_fail_one(ctx, case, d, orig, exp, n, err, call):
    fresh(d, case)
    t2 = sysfault.run("fail", n, err, cmd(ctx, case), cwd=d)
    states, temps, problems = inspect(d, case, orig, exp)
    rep = {"case": case, "mode": "fail", "n": n, "errno": err}
    if t2.rc == 0:
        # the failure must be reported ... unless the failing call is the final chmod of an already-complete file? no: any failed step is a failure
        problems.append("exit status 0 although syscall %d (%r) failed with errno %d" % (n, call, err))
    else:
        if b"mlr" not in t2.err:
            problems.append("no mlr: diagnostic on stderr: %r" % t2.err[:100])
        if temps:
            problems.append("failure reported through the normal error path left a temporary file: %r" % temps)
    if problems:
        ctx.fail(rep, "injected errno %d at syscall %d %r: %s; exit %s; states %r; stderr %r" % (err, n, call, "; ".join(problems[:3]), t2.rc, states, t2.err[:150]))
    return states


def body_errno(ctx, case):
    if "case" in case:
        return replay_crash(ctx, case)
    if not sysfault.ensure():
        ctx.label("ptrace-unavailable-skipped")
        return
    d, orig, exp = setup_case(ctx, case)
    tr = sysfault.run("list", 0, 0, cmd(ctx, case), cwd=d)
    if tr.rc != 0 or not tr.total:
        ctx.fail(case, "traced fault-free run failed: rc=%s" % tr.rc)
    calls = tr.calls
    pts = calls if len(calls) <= 40 else calls[:20] + calls[-20:]
    for c in pts:
        n, _, name, fd, path, ln = c
        errs = {"openat": [errno.ENOSPC, errno.EACCES], "write": [errno.ENOSPC, errno.EIO], "close": [errno.EIO], "renameat": [errno.EBUSY, errno.EACCES],
                "renameat2": [errno.EBUSY], "rename": [errno.EBUSY], "fchmodat": [errno.EPERM], "fchmod": [errno.EPERM], "chmod": [errno.EPERM]}.get(name, [errno.EIO])
        for e in errs:
            ctx.case(("errno", repr(case), n, e), True, labels=("fail-" + name,), sample={"verb": case["verb"], "at": c, "errno": e} if len(ctx.samples) < 3 else None)
            body_fail_one(ctx, case, d, orig, exp, n, e, c)
    shutil.rmtree(d, ignore_errors=True)


# ---- normal-path failures without injection

@st.composite
def failure_case(draw):
    nfiles = draw(st.integers(1, 4))
    j = draw(st.integers(0, nfiles - 1))
    kind = draw(st.sampled_from(["malformed-csv", "malformed-json", "dsl-typed", "dsl-x", "unwritable-redirect", "csv-schema-change-out"]))
    return {"nfiles": nfiles, "j": j, "kind": kind, "k": draw(st.integers(1, 5))}


def body_failure(ctx, case):
    d = vrun.newdir("ipf")
    kind, j, k = case["kind"], case["j"], case["k"]
    names = []
    fmt = "csv" if kind in ("malformed-csv", "csv-schema-change-out") else ("json" if kind == "malformed-json" else "dkvp")
    for i in range(case["nfiles"]):
        name = "f%d.%s" % (i, fmt)
        data = records(6, fmt, i)
        if i == j and kind == "malformed-csv":
            lines = data.decode().split("\n")
            lines[k] = lines[k] + ",EXTRA"
            data = "\n".join(lines).encode()
        if i == j and kind == "malformed-json":
            data = data[:len(data) // 2] + b" } ] garbage"
        with open(os.path.join(d, name), "wb") as fh:
            fh.write(data)
        names.append(name)
    orig = {n: open(os.path.join(d, n), "rb").read() for n in names}
    if kind == "dsl-typed":
        verb = ["put", 'int q = (FILENAME == "%s" && FNR == %d) ? "s" : 1; $q = q' % (names[j], k)]
    elif kind == "dsl-x":
        verb = ["-x", "put", '$z = (FILENAME == "%s" && FNR == %d) ? $a .+ "s" : 1' % (names[j], k)]
    elif kind == "unwritable-redirect":
        verb = ["put", 'if (FILENAME == "%s" && FNR == %d) {tee > "/nonexistent-dir/x/y", $*}' % (names[j], k)]
    elif kind == "csv-schema-change-out":
        verb = ["put", 'if (FILENAME == "%s" && FNR == %d) {$* = {"different": 1}}' % (names[j], k)]
    else:
        verb = ["cat"]
    pre = ["--" + fmt] if fmt != "dkvp" else []
    if verb[0] == "-x":
        pre, verb = pre + ["-x"], verb[1:]
    r = vrun.run([ctx.mlr_path, "-I"] + pre + verb + names, env=vrun.base_env(), cwd=d)
    ctx.mlr.invocations += 1
    ctx.case(case, j >= 1 or k > 1, labels=("normal-path-" + kind,), sample=case if len(ctx.samples) < 3 else None)
    problems = []
    if r.rc == 0:
        problems.append("exit 0 although file %s cannot be processed (%s)" % (names[j], kind))
    if r.timed_out:
        problems.append("hangs")
    left = [n for n in os.listdir(d) if n not in names]
    if left:
        problems.append("temporary file left behind by a failure reported through the normal error path: %r" % left)
    for i, n in enumerate(names):
        now = open(os.path.join(d, n), "rb").read()
        if i >= j and now != orig[n]:
            problems.append("%s (file %d, failure in file %d) is not byte-identical to its original" % (n, i, j))
        if i < j and now == orig[n] and kind != "dsl-x" and verb != ["cat"]:
            pass
    if problems:
        ctx.fail(case, "%s in file %d record %d: %s; exit %s stderr %r" % (kind, j, k, "; ".join(problems[:3]), r.rc, r.err[:150]))
    shutil.rmtree(d, ignore_errors=True)


# ---- refusals

def sub_refusals(ctx):
    d = vrun.newdir("ipr")
    good = os.path.join(d, "g.dkvp")
    import bz2
    for name, argv in (("http-url", ["-I", "cat", "g.dkvp", "http://example.invalid/x.dkvp"]), ("https-url", ["-I", "cat", "g.dkvp", "https://example.invalid/x"]),
                       ("file-url", ["-I", "cat", "g.dkvp", "file:///tmp/x"]), ("prepipe", ["-I", "--prepipe", "cat", "cat", "g.dkvp"]), ("prepipex", ["-I", "--prepipex", "cat", "cat", "g.dkvp"]),
                       ("bz2", ["-I", "cat", "g.dkvp", "b.bz2"]), ("bz2-first", ["-I", "cat", "b.bz2", "g.dkvp"]), ("-n", ["-I", "-n", "cat", "g.dkvp"]), ("no-files", ["-I", "cat"])):
        with open(good, "wb") as f:
            f.write(b"a=1\na=2\n")
        with open(os.path.join(d, "b.bz2"), "wb") as f:
            f.write(bz2.compress(b"a=3\n"))
        before = {n: open(os.path.join(d, n), "rb").read() for n in os.listdir(d)}
        r = vrun.run([ctx.mlr_path] + argv + (["put", "$z=1"] if False else []), env=vrun.base_env(), cwd=d, stdin=b"")
        ctx.mlr.invocations += 1
        after = {n: open(os.path.join(d, n), "rb").read() for n in os.listdir(d)}
        ctx.case(("refusal", name), True, sample={"argv": argv} if len(ctx.samples) < 3 else None)
        # a file listed before the un-updatable one must not have been modified either: "refused before anything is modified"
        if r.rc == 0 or after != before:
            if not ctx.guard(ctx.fail, {"refusal": name, "argv": argv}, "%s: expected a refusal before anything is modified: exit %s, directory changed: %s, stderr %r" % (
                    name, r.rc, after != before, r.err[:150])):
                return


# ---- named crash sites (-tags verif)

def body_sites(ctx, case):
    if not ctx.mlr_verif_path:
        return
    only = None
    if "case" in case:
        only = (case["site"], case["k"])
        case = case["case"]
    d, orig, exp = setup_case(ctx, case)
    nrec_total = sum(f["n"] for f in case["files"])
    sites = ["inplace.after-createtemp", "inplace.after-stream", "inplace.after-wrapclose", "inplace.after-close", "inplace.after-rename", "inplace.after-chmod"]
    pts = [(s, k) for s in sites for k in range(1, len(case["files"]) + 1)] + [("writer.record", k) for k in (1, 2, 3, 10, 100) if k <= max(1, nrec_total)]
    for site, k in pts:
        if only and (site, k) != only:
            continue
        fresh(d, case)
        env = vrun.base_env({"MLR_VERIF_CRASH": "%s#%d" % (site, k)})
        r = vrun.run(cmd(ctx, case, ctx.mlr_verif_path), env=env, cwd=d)
        ctx.mlrv.invocations += 1
        states, temps, problems = inspect(d, case, orig, exp)
        ctx.case(("site", repr(case), site, k), site != "inplace.after-chmod" or k > 1, labels=("site-" + site,), sample={"site": site, "k": k, "states": states} if len(ctx.samples) < 3 else None)
        if problems:
            ctx.fail({"case": case, "site": site, "k": k}, "crash at %s#%d: %s; states %r leftovers %r" % (site, k, "; ".join(problems[:3]), states, temps))
    shutil.rmtree(d, ignore_errors=True)


def sub_success(ctx):
    ctx.hyp(case_strategy(), lambda c: body_success(ctx, c), ctx.n(150, 3000))


def sub_crash(ctx):
    ctx.hyp(case_strategy(), lambda c: body_crash(ctx, c), ctx.n(24, 400), shrink_budget=25)


def sub_errno(ctx):
    ctx.hyp(case_strategy(), lambda c: body_errno(ctx, c), ctx.n(16, 300), shrink_budget=25)


def sub_failure(ctx):
    ctx.hyp(failure_case(), lambda c: body_failure(ctx, c), ctx.n(150, 2000))


def sub_sites(ctx):
    ctx.hyp(case_strategy(), lambda c: body_sites(ctx, c), ctx.n(24, 300), shrink_budget=25)


SUBCHECKS = [
    Sub("success_equivalence", sub_success, body_success, shards={"quick": 3, "thorough": 6}, rule="each file == non -I output for that file alone; mode preserved; gz/z rewritten compressed; no temp"),
    Sub("crash_points_syscall", sub_crash, replay_crash, shards={"quick": 8, "thorough": 16}, cost=5, exhaustive=False,
        rule="SIGKILL on entry to / exit from every file-mutating syscall (complete per case up to 60 calls): each file original or complete new, updated strictly in order, <= 1 leftover"),
    Sub("errno_injection", sub_errno, replay_crash, shards={"quick": 4, "thorough": 8}, cost=4, rule="ENOSPC/EIO/EBUSY/EACCES/EPERM injected at every file-mutating syscall: non-zero exit, diagnostic, no temp left, files original-or-new in order"),
    Sub("normal_path_failures", sub_failure, body_failure, shards={"quick": 2, "thorough": 4}, rule="malformed input / DSL error / -x / unwritable redirect / CSV schema change in file j record k: non-zero exit, files j.. untouched, no temp"),
    Sub("refusals", sub_refusals, None, shards={"quick": 1, "thorough": 1}, exhaustive=True, rule="URLs, prepipes, bzip2, -n, no files: refused before anything is modified"),
    Sub("crash_points_named_sites", sub_sites, None, shards={"quick": 3, "thorough": 6}, cost=2, rule="MLR_VERIF_CRASH at each in-place step for each file and at the n-th written record (-tags verif build)"),
]

KNOWN = {}
