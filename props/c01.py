"""C01 - every format round-trips its own output; CSV/TSV/JSON speak the standard dialect."""
import csv
import json

from hypothesis import strategies as st

from vlib.core import Sub
from vlib import gen

LEVEL = "exploration"
RULE = ("Hypothesis: record streams inside each format's documented representable domain (keys/values built from hostile atoms: "
        "separators, quotes, CR/LF, backslashes, BOM, controls, multi-byte, invalid UTF-8, number look-alikes; 1-14 fields; 1-5 records) x "
        "format x option variant; five oracles per case (independent writer -> Miller reader, Miller writer -> Miller reader, Miller writer -> "
        "independent reader, idempotence of `mlr --fmt cat` on its own output, CRLF/LF/no-final-newline re-termination); non-trivial = some "
        "cell or key forces an encoding decision (needs quoting/escaping/padding, is empty, is multi-byte) or >=12 fields or non-default options")
ASSUMPTIONS = ["Python csv (strict) is an RFC-4180 codec; Python json is an RFC-8259 codec; vlib.gen.tsv_* implements the IANA TSV escapes",
               "the JSON observer (mlr -S --ojson) is itself checked against Python json in the json/jsonl cases"]

U = gen.u8


class Fmt(object):
    def __init__(self, name, flags, key_excl, val_excl, hetero=False, key_nonempty=True, val_nonempty=False, variants=None,
                 pywrite=None, pyread=None, invalid_utf8=True, lines=True, val_filter=None, key_filter=None, implicit_keys=False):
        self.name = name
        self.iflag, self.oflag = flags
        self.key_excl, self.val_excl = key_excl, val_excl
        self.hetero = hetero
        self.key_nonempty, self.val_nonempty = key_nonempty, val_nonempty
        self.variants = variants or [{"name": "default", "w": [], "r": []}]
        self.pywrite, self.pyread = pywrite, pyread
        self.invalid_utf8 = invalid_utf8
        self.lines = lines
        self.val_filter = val_filter
        self.key_filter = key_filter
        self.implicit_keys = implicit_keys


# ---- python-side writers/readers (independent of Miller)

def w_csv(recs, v):
    """RFC-4180 writer: a field is quoted iff it contains the delimiter, a quote, CR or LF (or with QUOTE_ALL); a lone
    empty field is quoted so that the line is not blank. (Python's csv.writer leaves a bare CR unquoted.)"""
    hdr = [k for k, _ in recs[0]]
    rows = [[x for _, x in r] for r in recs]
    d, lt, qa = v.get("delim", ","), v.get("lt", "\n"), v.get("quoting") == csv.QUOTE_ALL

    def q(c, alone):
        if qa or any(ch in c for ch in (d, '"', "\r", "\n")) or (alone and c == ""):
            return '"' + c.replace('"', '""') + '"'
        return c
    out = []
    for row in ([] if v.get("implicit") else [hdr]) + rows:
        out.append(d.join(q(c, len(row) == 1) for c in row))
    return lt.join(out) + lt


def r_csv(text, v):
    tab = gen.parse_csv(text, delimiter=v.get("delim", ","))
    if v.get("implicit"):
        return [[(str(i + 1), c) for i, c in enumerate(row)] for row in tab]
    if not tab:
        return []
    hdr = tab[0]
    return [list(zip(hdr, row)) for row in tab[1:]]


def w_tsv(recs, v):
    hdr = [k for k, _ in recs[0]]
    return gen.to_tsv(None if v.get("implicit") else hdr, [[x for _, x in r] for r in recs])


def r_tsv(text, v):
    if v.get("nocrlf_terminator"):
        text = text.replace("\r\n", "\n")
    tab = gen.parse_tsv(text)
    if v.get("implicit"):
        return [[(str(i + 1), c) for i, c in enumerate(row)] for row in tab]
    if not tab:
        return []
    return [list(zip(tab[0], row)) for row in tab[1:]]


def w_dkvp(recs, v):
    fs, ps = v.get("fs", ","), v.get("ps", "=")
    return "".join(fs.join(k + ps + x for k, x in r) + "\n" for r in recs)


def w_nidx(recs, v):
    fs = v.get("fs", " ")
    return "".join(fs.join(x for _, x in r) + "\n" for r in recs)


def w_xtab(recs, v):
    ps = ":" if v.get("nocolon") else " "
    return "\n".join("".join("%s%s%s\n" % (k, ps, x) for k, x in r) for r in recs)


def w_pprint(recs, v):
    out = []
    prev = None
    for r in recs:
        keys = [k for k, _ in r]
        if keys != prev:
            if prev is not None:
                out.append("")
            out.append(" ".join(keys))
            prev = keys
        out.append(" ".join(x if x != "" else "-" for _, x in r))
    return "\n".join(out) + "\n"


def w_csvlite(recs, v):
    out = []
    prev = None
    for r in recs:
        keys = [k for k, _ in r]
        if keys != prev:
            if prev is not None:
                out.append("")
            out.append(",".join(keys))
            prev = keys
        out.append(",".join(x for _, x in r))
    return "\n".join(out) + "\n"


def w_markdown(recs, v):
    hdr = [k for k, _ in recs[0]]
    out = ["| " + " | ".join(hdr) + " |", "| " + " | ".join("---" for _ in hdr) + " |"]
    for r in recs:
        out.append("| " + " | ".join(x.replace("|", "\\|") for _, x in r) + " |")
    return "\n".join(out) + "\n"


def w_json(recs, v):
    return gen.json_records(recs)


def w_jsonl(recs, v):
    return "".join("{" + ", ".join("%s: %s" % (json.dumps(k, ensure_ascii=False), json.dumps(x, ensure_ascii=False)) for k, x in r) + "}\n" for r in recs)


class _Pairs(list):
    pass


def r_json(text, v):
    dec = json.JSONDecoder(object_pairs_hook=lambda ps: _Pairs(ps))
    i, n, out = 0, len(text), []
    while True:
        while i < n and text[i] in " \t\r\n":
            i += 1
        if i >= n:
            break
        val, i = dec.raw_decode(text, i)
        if isinstance(val, _Pairs):
            out.append(val)
        elif isinstance(val, list):
            out.extend(val)
        else:
            raise ValueError("top-level JSON value is neither object nor array")
    return _norm_json(out)


def r_jsonl(text, v):
    return _norm_json([json.loads(l, object_pairs_hook=lambda ps: ps) for l in text.split("\n") if l.strip()])


def _norm_json(v):
    return [[(k, x) for k, x in r] for r in v]


CSV_VARIANTS = [
    {"name": "default", "w": [], "r": []},
    {"name": "quote-all", "w": ["--quote-all"], "r": [], "quoting": csv.QUOTE_ALL},
    {"name": "ofs-semicolon", "w": ["--ofs", ";"], "r": ["--ifs", ";"], "delim": ";"},
    {"name": "fs-pipe", "w": ["--ofs", "pipe"], "r": ["--ifs", "pipe"], "delim": "|"},
    {"name": "fs-tab", "w": ["--ofs", "tab"], "r": ["--ifs", "tab"], "delim": "\t"},
    {"name": "implicit-headerless", "w": ["--headerless-csv-output"], "r": ["--implicit-csv-header"], "implicit": True},
    {"name": "crlf", "w": ["--ors", "crlf"], "r": [], "lt": "\r\n", "nocrlf": True},
    {"name": "bom", "w": [], "r": [], "bom": True},
    {"name": "rpb1", "w": [], "r": ["--records-per-batch", "1"]},
    {"name": "lazy-quotes-reader", "w": [], "r": ["--lazy-quotes"]},
]
TSV_VARIANTS = [
    {"name": "default", "w": [], "r": []},
    {"name": "implicit-headerless", "w": ["--headerless-tsv-output"], "r": ["--implicit-tsv-header"], "implicit": True},
    {"name": "crlf", "w": ["--ors", "crlf"], "r": [], "nocrlf_terminator": True},
    {"name": "rpb1", "w": [], "r": ["--records-per-batch", "1"]},
]
DKVP_VARIANTS = [
    {"name": "default", "w": [], "r": []},
    {"name": "fs-semicolon-ps-colon", "w": ["--ofs", ";", "--ops", ":"], "r": ["--ifs", ";", "--ips", ":"], "fs": ";", "ps": ":"},
    {"name": "fs-multichar", "w": ["--ofs", "::", "--ops", "->"], "r": ["--ifs", "::", "--ips", "->"], "fs": "::", "ps": "->", "excl": (":", "-", ">")},
    {"name": "rpb2", "w": [], "r": ["--records-per-batch", "2"]},
]
NIDX_VARIANTS = [
    {"name": "default", "w": [], "r": []},
    {"name": "fs-comma", "w": ["--ofs", ","], "r": ["--ifs", ","], "fs": ","},
]
JSON_VARIANTS = [
    {"name": "default", "w": [], "r": []},
    {"name": "no-jvstack", "w": ["--no-jvstack"], "r": []},
    {"name": "jvquoteall", "w": ["--jvquoteall"], "r": []},
    {"name": "no-jlistwrap", "w": ["--no-jlistwrap"], "r": []},
    {"name": "jvstack-rpb1", "w": ["--jvstack"], "r": ["--records-per-batch", "1"]},
]
PPRINT_VARIANTS = [
    {"name": "default", "w": [], "r": []},
    {"name": "right", "w": ["--right"], "r": []},
    {"name": "barred", "w": ["--barred"], "r": ["--barred-input"], "barred": True},
]
XTAB_VARIANTS = [
    {"name": "default", "w": [], "r": []},
    {"name": "xvright", "w": ["--xvright"], "r": [], "noleadspace": True},
    {"name": "ops-colon", "w": ["--ops", ":"], "r": ["--ips", ":"], "nocolon": True},
]

WS = (" ", "\t", "\n", "\r", "\x0b", "\x0c", U("\u0085"), U("\u00a0"), U("\u2028"))
NL = ("\n", "\r")

FORMATS = {
    "csv": Fmt("csv", (["--icsv"], ["--ocsv"]), key_excl=(), val_excl=(), variants=CSV_VARIANTS, pywrite=w_csv, pyread=r_csv),
    "tsv": Fmt("tsv", (["--itsv"], ["--otsv"]), key_excl=(), val_excl=(), variants=TSV_VARIANTS, pywrite=w_tsv, pyread=r_tsv),
    "csvlite": Fmt("csvlite", (["--icsvlite"], ["--ocsvlite"]), key_excl=(",", '"') + NL, val_excl=(",", '"') + NL, hetero=True, pywrite=w_csvlite,
                   val_filter=lambda recs: not any(len(r) == 1 and r[0][1] == "" for r in recs)),
    "tsvlite": Fmt("tsvlite", (["--itsvlite"], ["--otsvlite"]), key_excl=("\t", '"', "\\") + NL, val_excl=("\t", '"', "\\") + NL, hetero=True, invalid_utf8=False,
                   val_filter=lambda recs: not any(len(r) == 1 and r[0][1] == "" for r in recs)),
    "json": Fmt("json", (["--ijson"], ["--ojson"]), key_excl=(), val_excl=(), hetero=True, key_nonempty=False, variants=JSON_VARIANTS, pywrite=w_json, pyread=r_json,
                invalid_utf8=False, lines=False),
    "jsonl": Fmt("jsonl", (["--ijsonl"], ["--ojsonl"]), key_excl=(), val_excl=(), hetero=True, key_nonempty=False, pywrite=w_jsonl, pyread=r_jsonl, invalid_utf8=False),
    "yaml": Fmt("yaml", (["--iyaml"], ["--oyaml"]), key_excl=NL + ("\t",), val_excl=(), hetero=True, invalid_utf8=False, lines=False),
    "dkvp": Fmt("dkvp", (["--idkvp"], ["--odkvp"]), key_excl=(",", "=", ";", ":", "->") + NL, val_excl=(",", ";", "::") + NL, hetero=True, variants=DKVP_VARIANTS, pywrite=w_dkvp),
    "dkvpx": Fmt("dkvpx", (["--dkvpx"], ["--dkvpx"]), key_excl=(), val_excl=(), hetero=True, invalid_utf8=False),
    "nidx": Fmt("nidx", (["--inidx"], ["--onidx"]), key_excl=(), val_excl=WS + (",",), val_nonempty=True, hetero=True, variants=NIDX_VARIANTS, pywrite=w_nidx, implicit_keys=True),
    "xtab": Fmt("xtab", (["--ixtab"], ["--oxtab"]), key_excl=WS + (":",), val_excl=NL, hetero=True, variants=XTAB_VARIANTS, pywrite=w_xtab),
    "pprint": Fmt("pprint", (["--ipprint"], ["--opprint"]), key_excl=WS + ("|",), val_excl=WS + ("|",), hetero=True, variants=PPRINT_VARIANTS, pywrite=w_pprint),
    "markdown": Fmt("markdown", (["--imd"], ["--omd"]), key_excl=NL + ("|",), val_excl=NL, hetero=False, pywrite=w_markdown),
}


def _uni(s):
    return s.encode("latin-1").decode("utf-8", "replace")


def has_ws(s):
    return any(c.isspace() for c in _uni(s)) or any(c.isspace() for c in s)


def outer_ws(s):
    u = _uni(s)
    return u != u.strip() or s != s.strip()


def cell(excl, nonempty, invalid_utf8):
    return gen.text_cell(exclude=excl, invalid_utf8=invalid_utf8, nonempty=nonempty)


@st.composite
def case_strategy(draw, fname):
    F = FORMATS[fname]
    v = draw(st.sampled_from(F.variants))
    kx, vx = tuple(F.key_excl), tuple(F.val_excl)
    if v.get("nocrlf"):
        vx = vx + NL
        kx = kx + NL
    if v.get("excl"):  # multi-character separators: no cell may contain or abut a fragment of them
        vx = vx + tuple(v["excl"])
        kx = kx + tuple(v["excl"])
    nf = draw(st.one_of(st.integers(1, 5), st.integers(1, 5), st.integers(12, 14)))
    inv = F.invalid_utf8 and F.pywrite is not None and not v.get("barred")
    keycell = cell(kx, F.key_nonempty, inv)
    valcell = cell(vx, F.val_nonempty, inv)
    if fname in ("pprint", "xtab", "nidx", "markdown"):
        keycell = keycell.filter(lambda s: s != "" and not outer_ws(s))
    if fname in ("pprint", "xtab"):
        keycell = keycell.filter(lambda s: not has_ws(s))
    if fname in ("pprint", "nidx"):
        valcell = valcell.filter(lambda s: not has_ws(s))
    if fname == "pprint":
        valcell = valcell.filter(lambda s: s != "-")
    if fname == "xtab":
        valcell = valcell.filter(lambda s: not s.startswith(" ") and not s.startswith("\t"))
        if v.get("nocolon"):
            valcell = valcell.filter(lambda s: not s.startswith(":"))
    if fname == "markdown":
        valcell = valcell.filter(lambda s: s != "" and not outer_ws(s))
    if fname == "nidx" and v.get("fs") == ",":
        pass
    nrec = draw(st.integers(1, 5))
    keysets = []
    nsets = draw(st.integers(1, 2)) if F.hetero else 1
    for _ in range(nsets):
        n = nf if not keysets else draw(st.integers(1, 4))
        keys = draw(st.lists(keycell, min_size=n, max_size=n, unique=True))
        if keys and keys[0].startswith(U("\ufeff")):
            keys[0] = "k" + keys[0]
        keysets.append(keys)
    recs = []
    # long cells: physical lines beyond the 4 KiB / 64 KiB buffer sizes of the line readers
    longmode = draw(st.integers(0, 7)) == 0
    longlen = draw(st.sampled_from([4090, 4097, 5000, 9000, 65530, 70000])) if longmode else 0
    for i in range(nrec):
        keys = keysets[draw(st.integers(0, len(keysets) - 1))]
        if F.implicit_keys:
            keys = [str(j + 1) for j in range(len(keys))]
        rec = [[k, draw(valcell)] for k in keys]
        if longmode:
            j = draw(st.integers(0, len(rec) - 1))
            base = rec[j][1] or "x"
            big = base * (longlen // len(base) + 1)
            if any(x in big for x in vx) or has_ws(big[:64] + big[-64:]) and fname in ("pprint", "nidx", "markdown", "xtab"):
                big = "x" * longlen
            rec[j][1] = big
        recs.append(rec)
    if v.get("implicit") and recs and recs[0] and recs[0][0][1].startswith(U("\ufeff")):
        # a byte-order mark at the very start of the file is stripped by design; without a header line that is the first value
        recs[0][0][1] = "v" + recs[0][0][1]
    return {"fmt": fname, "variant": v["name"], "recs": recs, "long": longlen}


def variant_of(F, name):
    return [v for v in F.variants if v["name"] == name][0]


def observe(ctx, case, F, v, text_b, what):
    res = ctx.mlr(["-S"] + F.iflag + v["r"] + ["--ojson", "--no-auto-unflatten", "--no-auto-flatten", "cat"], stdin=text_b)
    if res.rc != 0 or res.panicked:
        ctx.fail(case, "%s: reader failed rc=%s: %s\n  text=%r" % (what, res.rc, res.err[:300].decode("latin-1"), text_b[:300]), {"leg": "read-error"})
    try:
        got = json.loads(res.out.decode("latin-1"), object_pairs_hook=lambda ps: ps) if res.out.strip() else []
    except ValueError as e:
        ctx.fail(case, "%s: observer JSON unparsable (%s): %r" % (what, e, res.out[:300]))
    return [[[k, x] for k, x in r] for r in got]


def expect_recs(case, F, v):
    recs = case["recs"]
    if v.get("implicit") or F.implicit_keys:
        return [[[str(i + 1), x] for i, (_, x) in enumerate(r)] for r in recs]
    return [[[k, x] for k, x in r] for r in recs]


def first_diff(exp, got):
    if len(exp) != len(got):
        return "record count %d vs %d; expected %r got %r" % (len(exp), len(got), exp[:2], got[:2])
    for i, (a, b) in enumerate(zip(exp, got)):
        if a != b:
            if len(a) != len(b):
                return "record %d: field count %d vs %d: expected %r got %r" % (i, len(a), len(b), a[:4], b[:4])
            for j, (x, y) in enumerate(zip(a, b)):
                if x != y:
                    return "record %d field %d: expected %r got %r" % (i, j, x, y)
    return "equal"


def needs_encoding(F, recs):
    for r in recs:
        if len(r) >= 12:
            return True
        for k, x in r:
            for s in (k, x):
                if s == "" or any(ord(c) > 127 or c in ',;|=:\t "\'\\#\r\n{}[]' for c in s):
                    return True
    return False


def body(ctx, case):
    F = FORMATS[case["fmt"]]
    v = variant_of(F, case["variant"])
    recs = case["recs"]
    if F.val_filter and not F.val_filter(recs):
        return
    if F.name == "markdown" and any(all(set(c) <= set("- ") for c in row) for r in recs for row in ([k for k, _ in r], [x for _, x in r])):
        return  # a row of dashes is the markdown separator line: not representable
    if v.get("implicit") and any(len(r) == 1 and r[0][1] == "" for r in recs):
        return  # headerless text: an empty line is not a record (blank line = schema separator), by construction out of domain
    exp = expect_recs(case, F, v)
    nontrivial = needs_encoding(F, recs) or v["name"] != "default" or len({tuple(k for k, _ in r) for r in recs}) > 1
    ctx.case(case, nontrivial, labels=(F.name + "/" + v["name"], "fields>=12" if any(len(r) >= 12 for r in recs) else "fields<12",
                                       "long-lines" if case.get("long") else "short-lines"),
             sample={"fmt": F.name, "variant": v["name"], "recs": recs[:2]} if (nontrivial and not case.get("long")) else None)
    wopts = F.oflag + v["w"]
    ropts = F.iflag + v["r"]
    # ---- leg A: independent writer -> Miller reader
    t0 = None
    if F.pywrite is not None and not v.get("barred"):
        t0 = F.pywrite([[(k, x) for k, x in r] for r in recs], v)
        if v.get("bom"):
            t0 = U("\ufeff") + t0
        got = observe(ctx, case, F, v, gen.bstr_bytes(t0), "independent-writer->mlr")
        if got != exp:
            ctx.fail(case, "independent writer -> Miller reader: %s\n  text=%r" % (first_diff(exp, got), t0[:300]), {"leg": "A", "exp": exp, "got": got})
    # ---- Miller writer
    if t0 is not None:
        res = ctx.mlr(ropts + wopts + ["cat"], stdin=gen.bstr_bytes(t0))
    else:
        src = [[(str(i + 1) if v.get("implicit") else k, x) for i, (k, x) in enumerate(r)] for r in recs] if False else recs
        res = ctx.mlr(["-S"] + wopts + ["--ijson", "--no-auto-flatten", "cat"], stdin=gen.bstr_bytes(gen.json_records([[(k, x) for k, x in r] for r in src])))
    if res.rc != 0 or res.panicked:
        ctx.fail(case, "Miller writer failed rc=%s: %s" % (res.rc, res.err[:300].decode("latin-1")))
    t1b = res.out
    t1 = gen.bytes_bstr(t1b)
    # ---- leg B: Miller writer -> Miller reader
    got = observe(ctx, case, F, v, t1b, "mlr-writer->mlr-reader")
    if got != exp:
        ctx.fail(case, "round trip: %s\n  miller text=%r" % (first_diff(exp, got), t1[:300]), {"leg": "B", "exp": exp, "got": got})
    # ---- leg C: Miller writer -> independent reader
    if F.pyread is not None and not v.get("barred"):
        try:
            back = F.pyread(t1, v)
        except (csv.Error, ValueError) as e:
            ctx.fail(case, "independent reader rejects Miller's output (%s): %r" % (e, t1[:300]))
        back = [[[k, x] for k, x in r] for r in back]
        if back != exp and not (F.name in ("json", "jsonl") and v["name"] == "no-jlistwrap" and False):
            ctx.fail(case, "Miller writer -> independent reader: %s\n  miller text=%r" % (first_diff(exp, back), t1[:300]), {"leg": "C", "exp": exp, "got": back})
    # ---- idempotence on own output
    res2 = ctx.mlr(ropts + wopts + ["cat"], stdin=t1b)
    if res2.rc != 0 or res2.out != t1b:
        ctx.fail(case, "`mlr --%s cat` not idempotent on its own output: rc=%s\n  first=%r\n  second=%r %s" % (
            F.name, res2.rc, t1[:300], gen.bytes_bstr(res2.out)[:300], res2.err[:200].decode("latin-1")),
            {"leg": "D", "first": t1, "second": gen.bytes_bstr(res2.out), "rc": res2.rc})
    # ---- line endings
    if F.lines and not any(c in s for r in recs for kx in r for s in kx for c in "\r\n") and v["name"] in ("default", "rpb1", "rpb2"):
        alts = [("crlf", t1.replace("\n", "\r\n"))]
        if t1.endswith("\n") and not t1.endswith("\n\n") and t1 != "\n":
            alts.append(("no-final-newline", t1[:-1]))
        for name, tx in alts:
            if F.name in ("nidx",) and name == "crlf":
                pass
            got = observe(ctx, case, F, v, gen.bstr_bytes(tx), "line-ending " + name)
            if got != exp:
                ctx.fail(case, "re-terminated (%s) text reads differently: %s\n  text=%r" % (name, first_diff(exp, got), tx[:300]), {"leg": "E", "exp": exp, "got": got})


def make_sub(fname, cost=1.0):
    def fn(ctx):
        ctx.hyp(case_strategy(fname), lambda c: body(ctx, c), ctx.n(120, 4000))
    return Sub("fmt_" + fname, fn, body, shards={"quick": 1, "thorough": 3}, cost=cost,
               rule="format %s: independent writer->reader, round trip, independent reader, idempotence, line endings" % fname)


SUBCHECKS = [make_sub(f, 2.0 if f in ("csv", "tsv", "json") else 1.0) for f in FORMATS]
for s in SUBCHECKS:
    if s.name in ("fmt_csv", "fmt_tsv", "fmt_json"):
        s.shards = {"quick": 2, "thorough": 6}


# --------------------------------------------------------------------------------------------
# known findings: predicates on the failing case (+ structured detail) and pinned probes

def _has(case, needle, values_only=False):
    for r in case.get("recs", []):
        for k, x in r:
            if needle in x or (not values_only and needle in k):
                return True
    return False


def _crn(s):
    return __import__("re").sub("\r+\n", "\n", s)


def _k_csv_crlf(sub, case, message, detail):
    """CSV/DKVPX readers turn CRLF inside a quoted field into LF: the only difference is that replacement."""
    if case.get("fmt") not in ("csv", "dkvpx") or not _has(case, "\r\n") or not detail:
        return False
    if detail.get("leg") == "D":
        return detail["rc"] == 0 and _crn(detail["first"]) == _crn(detail["second"])
    if "exp" not in detail:
        return False
    return [[[_crn(k), _crn(x)] for k, x in r] for r in detail["exp"]] == [[[_crn(k), _crn(x)] for k, x in r] for r in detail["got"]]


def _p_csv_crlf(mlr):
    r = mlr(["--icsv", "--ojson", "cat"], stdin=b'a\n"x\r\ny"\n')
    return b"x\\r\\ny" not in r.out


def _k_yaml_order(sub, case, message, detail):
    if case.get("fmt") != "yaml" or not detail:
        return False
    if detail.get("leg") == "D":
        return detail["rc"] == 0 and sorted(detail["first"].replace("- ", "  ").split("\n")) == sorted(detail["second"].replace("- ", "  ").split("\n"))
    if "exp" not in detail:
        return False
    return [sorted(r) for r in detail["exp"]] == [sorted(r) for r in detail["got"]] and detail["exp"] != detail["got"]


def _p_yaml_order(mlr):
    r = mlr(["--iyaml", "--ojson", "--no-jvstack", "cat"], stdin=b"- b: 1\n  a: 2\n")
    return r.out.find(b'"a"') < r.out.find(b'"b"')


def _k_md_pipe(sub, case, message, detail):
    return case.get("fmt") == "markdown" and _has(case, "|", values_only=True)


def _p_md_pipe(mlr):
    r = mlr(["--imd", "--ojson", "--no-jvstack", "cat"], stdin=b"| a | b |\n| --- | --- |\n| p\\|q | x |\n")
    return r.rc != 0 or b"p|q" not in r.out


KNOWN = {
    "csv-crlf-in-quoted-field": {"match": _k_csv_crlf, "probe": _p_csv_crlf},
    "yaml-reader-sorts-keys": {"match": _k_yaml_order, "probe": _p_yaml_order},
    "markdown-reader-no-pipe-unescape": {"match": _k_md_pipe, "probe": _p_md_pipe},
}
