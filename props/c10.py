"""C10 - aggregating verbs equal first-principles recomputation, group by group."""
import collections
import json
import math
from fractions import Fraction

from hypothesis import strategies as st

from vlib.core import Sub
from vlib import model_num as mn

LEVEL = "exploration"
RULE = ("Hypothesis: streams of 0-14 records (1-2 group-by fields incl. colliding joins like a,bc / ab,c; values ints, dyadic floats, decimal floats, "
        "constant groups, missing fields) x aggregating verbs and DSL statistics functions; oracle = exact recomputation per group with Fractions "
        "(counts/sums/min/max/modes/order statistics exact, moments to 1e-9 relative with conditioning guard), conservation of counts, first-appearance "
        "group order; non-trivial = >=2 groups with >=2 members, or a tie / mixed int-float / missing-field / constant-group situation")
ASSUMPTIONS = ["percentile definitions: non-interpolated index int(p*n/100) clamped, -i = linear interpolation over (n-1) (R type 7), as in the usage text; pinned to documented examples",
               "values kept well-conditioned (|x| <= 1e4)"]

NUM = st.one_of(st.integers(-1000, 1000), st.integers(-10000, 10000).map(lambda n: n / 8), st.sampled_from([0.1, 0.2, 2.3, 4.35, 17.9, 0.3, 1.1]))


def fnum(v):
    return str(v) if isinstance(v, int) else mn.fmtf(v)


def F(x):
    return Fraction(x) if isinstance(x, int) else Fraction(repr(x)) if False else Fraction(x)


@st.composite
def stream(draw):
    n = draw(st.integers(0, 14))
    const = draw(st.integers(0, 4)) == 0
    cval = draw(NUM)
    rows = []
    for _ in range(n):
        r = []
        if draw(st.integers(0, 9)) > 0:
            r.append(["g", draw(st.sampled_from(["a", "b", "c", "ab", "bc"]))])
        if draw(st.integers(0, 3)) > 0:
            r.append(["h", draw(st.sampled_from(["c", "bc", "a", ""]))])
        if draw(st.integers(0, 9)) > 0:
            r.append(["x", cval if const else draw(NUM)])
        if draw(st.integers(0, 2)) > 0:
            r.append(["y", draw(NUM)])
        rows.append(r)
    return rows


def text_of(rows):
    return "".join(",".join("%s=%s" % (k, v if isinstance(v, str) else fnum(v)) for k, v in r) + "\n" for r in rows if r)


def group(rows, gfields, need=()):
    groups = collections.OrderedDict()
    for r in rows:
        d = dict(r)
        if all(g in d for g in gfields) and all(f in d for f in need):
            groups.setdefault(tuple(d[g] for g in gfields), []).append(d)
    return groups


def close(got, exp, scale=1.0):
    if isinstance(exp, int) and not isinstance(exp, bool):
        return isinstance(got, int) and got == exp
    if got is None or isinstance(got, str):
        return False
    return abs(got - exp) <= 1e-9 * max(1.0, abs(exp), scale)


def pctl(srt, p, interp):
    n = len(srt)
    if interp:
        findex = (p / 100.0) * (n - 1)
        if findex < 0:
            findex = 0.0
        ii = int(math.floor(findex))
        if ii >= n - 1:
            return srt[n - 1] if ii >= n - 1 else srt[ii]
        frac = findex - ii
        return srt[ii] + frac * (srt[ii + 1] - srt[ii])
    idx = int(p * n / 100.0)
    idx = max(0, min(n - 1, idx))
    return srt[idx]


def ambiguous_p(p, n):
    v = p * n / 100.0
    return abs(v - round(v)) < 1e-9 and not float(p).is_integer()


def stats_of(xs, ps, interp):
    n = len(xs)
    o = collections.OrderedDict()
    o["count"] = n
    s = sum(Fraction(x) for x in xs)
    allint = all(isinstance(x, int) for x in xs)
    o["sum"] = int(s) if allint else float(s)
    o["mean"] = float(s / n)
    o["min"] = min(xs)
    o["max"] = max(xs)
    if n >= 2:
        mean = s / n
        var = sum((Fraction(x) - mean) ** 2 for x in xs) / (n - 1)
        o["var"] = float(var)
        o["stddev"] = math.sqrt(float(var))
        o["meaneb"] = math.sqrt(float(var) / n)
    else:
        o["var"] = o["stddev"] = o["meaneb"] = None
    cnt = collections.OrderedDict()
    for x in xs:
        cnt[fnum(x)] = cnt.get(fnum(x), 0) + 1
    o["mode"] = max(cnt.items(), key=lambda kv: kv[1])[0]   # first-found wins tie: max returns first maximal
    o["antimode"] = min(cnt.items(), key=lambda kv: kv[1])[0]
    o["distinct_count"] = len(cnt)
    o["minlen"] = min(len(fnum(x)) for x in xs)
    o["maxlen"] = max(len(fnum(x)) for x in xs)
    srt = sorted(xs)
    for p in ps:
        if ambiguous_p(p, n):
            continue
        o["p%s" % p] = pctl(srt, p, interp)
    o["median"] = pctl(srt, 50, interp)
    return o


def check_stats(ctx, case, got_rec, prefix, exp, what):
    scale = max([abs(float(v)) for v in exp.values() if isinstance(v, (int, float)) and not isinstance(v, bool)] + [1.0]) ** 2
    for k, ev in exp.items():
        name = prefix + k
        gv = got_rec.get(name)
        if ev is None:
            if gv not in ("", None):
                ctx.fail(case, "%s: %s should be empty for n<2, got %r" % (what, name, gv))
        elif k in ("mode", "antimode"):
            if fnum(gv) if isinstance(gv, (int, float)) and not isinstance(gv, bool) else gv != ev:
                if str(gv) != ev and not (isinstance(gv, (int, float)) and fnum(gv) == ev):
                    ctx.fail(case, "%s: %s expected %r got %r" % (what, name, ev, gv))
        elif k in ("var", "stddev", "meaneb"):
            # compare on the variance scale: sqrt amplifies cancellation error near zero
            sq = (lambda v: v) if k == "var" else (lambda v: v * v)
            if isinstance(gv, str) or gv is None or gv != gv or gv < 0 or not close(sq(gv), sq(ev), scale):
                ctx.fail(case, "%s: %s expected %r got %r" % (what, name, ev, gv))
        elif k in ("count", "distinct_count", "minlen", "maxlen"):
            if gv != ev:
                ctx.fail(case, "%s: %s expected %r got %r" % (what, name, ev, gv))
        elif k in ("sum", "min", "max", "first", "last") and isinstance(ev, int):
            if not (isinstance(gv, int) and gv == ev):
                ctx.fail(case, "%s: %s expected int %r got %r" % (what, name, ev, gv))
        else:
            if not close(gv, ev):
                ctx.fail(case, "%s: %s expected %r got %r" % (what, name, ev, gv))


KINDS = ["stats1", "stats1", "merge-fields-f", "merge-fields-c", "merge-fields-k", "count", "count-distinct", "count-distinct-u", "count-distinct-n", "count-similar", "uniq-c", "uniq-n", "uniq-a-c",
         "step", "step-shift", "step-window", "step-window", "fraction", "histogram", "most-frequent", "least-frequent", "fill-down", "dsl-stats", "top"]


@st.composite
def case_strategy(draw):
    rows = draw(stream())
    ps = draw(st.lists(st.one_of(st.integers(0, 100), st.sampled_from([25.2, 33.3, 99.9, 0.5])), min_size=1, max_size=3, unique=True))
    return {"rows": rows, "ps": ps, "interp": draw(st.booleans()), "kind": draw(st.sampled_from(KINDS)), "gf": draw(st.sampled_from([["g"], ["g"], ["g", "h"], []])),
            "rpb": draw(st.sampled_from([None, 1, 3]))}


def run(ctx, case, args, rows, text=None):
    pre = (["--records-per-batch", str(case["rpb"])] if case.get("rpb") else []) + ["--ojsonl", "--no-auto-unflatten"]
    res = ctx.mlr(pre + args, stdin=(text if text is not None else text_of(rows)).encode())
    if res.rc != 0 or res.panicked or res.timed_out:
        ctx.fail(case, "mlr %r failed rc=%s: %s" % (args, res.rc, res.err[:300].decode("utf-8", "replace")))
    return [json.loads(l) for l in res.out.decode("utf-8").splitlines()]


def body(ctx, case):
    rows, ps, interp, kind, gf = case["rows"], case["ps"], case["interp"], case["kind"], case["gf"]
    rows = [r for r in rows if r]
    nt = False
    if kind == "stats1":
        accs = "count,sum,mean,min,max,var,stddev,meaneb,mode,antimode,distinct_count,minlen,maxlen,median," + ",".join("p%s" % p for p in ps)
        got = run(ctx, case, ["stats1", "-a", accs, "-f", "x"] + (["-g", ",".join(gf)] if gf else []) + (["-i"] if interp else []), rows)
        groups = group(rows, gf)
        if not gf:
            groups = collections.OrderedDict([((), [dict(r) for r in rows])]) if rows else collections.OrderedDict()
        if len(got) != len(groups):
            if not (len(got) <= 1 and not any("x" in d for ds in groups.values() for d in ds)):
                ctx.fail(case, "stats1: %d output records for %d groups" % (len(got), len(groups)))
        for g, (key, ds) in zip(got, groups.items()):
            for f, kv in zip(gf, key):
                if str(g.get(f)) != kv:
                    ctx.fail(case, "stats1: groups must be emitted in first-appearance order with their exact texts: expected %r got %r" % (key, [g.get(f) for f in gf]))
            xs = [d["x"] for d in ds if "x" in d]
            if xs:
                check_stats(ctx, case, g, "x_", stats_of(xs, ps, interp), "stats1 group %r" % (key,))
            elif any(k.startswith("x_") and v not in ("", 0) for k, v in g.items()):
                ctx.fail(case, "stats1: group %r has no x values but output %r" % (key, g))
        if sum((g.get("x_count") or 0) for g in got) != sum(1 for ds in groups.values() for d in ds if "x" in d):
            ctx.fail(case, "stats1: counts over all groups do not add up to the number of contributing records")
        groups = collections.OrderedDict((k, [d for d in ds if "x" in d]) for k, ds in groups.items())
        nt = sum(1 for v in groups.values() if len(v) >= 2) >= 2 or any(len(set(fnum(d["x"]) for d in v)) == 1 and len(v) >= 2 for v in groups.values())
    elif kind in ("merge-fields-f", "merge-fields-c", "merge-fields-k"):
        recs = [[["a_in_x", r2[0]], ["a_out_x", r2[1]], ["b_in_y", r2[2]], ["o", "z"]] for r2 in
                [[dict(r).get("x", 3), dict(r).get("y", 7), dict(r).get("x", 1)] for r in rows]]
        accs = "count,sum,min,max,mean,var,median," + ",".join("p%s" % p for p in ps)
        if kind == "merge-fields-c":
            got = run(ctx, case, ["merge-fields", "-a", accs, "-c", "in_,out_"] + (["-i"] if interp else []), recs)
            for g, r in zip(got, recs):
                d = dict(r)
                check_stats(ctx, case, g, "a_x_", {k: v for k, v in stats_of([d["a_in_x"], d["a_out_x"]], ps, interp).items() if k in accs.split(",") or k.startswith("p")}, "merge-fields -c record")
                check_stats(ctx, case, g, "b_y_", {k: v for k, v in stats_of([d["b_in_y"]], ps, interp).items() if k in accs.split(",") or k.startswith("p")}, "merge-fields -c record")
                if g.get("o") != "z" or "a_in_x" in g:
                    ctx.fail(case, "merge-fields -c: inputs must be removed and other fields kept: %r" % g)
        else:
            keep = kind == "merge-fields-k"
            got = run(ctx, case, ["merge-fields", "-a", accs, "-f", "a_in_x,a_out_x", "-o", "foo"] + (["-k"] if keep else []) + (["-i"] if interp else []), recs)
            for g, r in zip(got, recs):
                d = dict(r)
                check_stats(ctx, case, g, "foo_", {k: v for k, v in stats_of([d["a_in_x"], d["a_out_x"]], ps, interp).items() if k in accs.split(",") or k.startswith("p")}, "merge-fields -f record")
                if ("a_in_x" in g) != keep or g.get("o") != "z" or "b_in_y" not in g:
                    ctx.fail(case, "merge-fields -f%s: wrong set of retained fields: %r" % (" -k" if keep else "", g))
        if len(got) != len(recs):
            ctx.fail(case, "merge-fields: %d records in, %d out" % (len(recs), len(got)))
        nt = len(recs) >= 2
    elif kind == "count":
        got = run(ctx, case, ["count"] + (["-g", ",".join(gf)] if gf else []), rows)
        groups = group(rows, gf)
        exp = [dict(list(zip(gf, k)) + [("count", len(v))]) for k, v in groups.items()] if gf else [{"count": len(rows)}]
        if [{k: (str(v) if k != "count" else v) for k, v in g.items()} for g in got] != exp:
            ctx.fail(case, "count %r: expected %r got %r" % (gf, exp, got))
        nt = len(groups) >= 2
    elif kind in ("count-distinct", "uniq-c"):
        fields = gf or ["g"]
        args = ["count-distinct", "-f", ",".join(fields)] if kind == "count-distinct" else ["uniq", "-g", ",".join(fields), "-c"]
        got = run(ctx, case, args, rows)
        groups = group(rows, fields)
        if kind == "count-distinct":
            exp = [dict(list(zip(fields, k)) + [("count", len(v))]) for k, v in groups.items()]
        else:
            exp = [dict(list(zip(fields, k)) + [("count", len(v))]) for k, v in groups.items()]
        if [list({k: (str(v) if k != "count" else v) for k, v in g.items()}.items()) for g in got] != [list(e.items()) for e in exp]:
            ctx.fail(case, "%r: expected %r got %r" % (args, exp, got))
        nt = len(groups) >= 2
    elif kind == "count-distinct-u":
        got = run(ctx, case, ["count-distinct", "-u", "-f", "g,h"], rows)
        exp = []
        for f in ("g", "h"):
            c = collections.OrderedDict()
            for r in rows:
                d = dict(r)
                if f in d:
                    c[d[f]] = c.get(d[f], 0) + 1
            exp += [{"field": f, "value": k, "count": v} for k, v in c.items()]
        if [{k: (str(v) if k != "count" else v) for k, v in g.items()} for g in got] != exp:
            ctx.fail(case, "count-distinct -u -f g,h: expected %r got %r" % (exp, got))
        nt = len(exp) >= 3
    elif kind in ("count-distinct-n", "uniq-n"):
        fields = gf or ["g"]
        args = ["count-distinct", "-n", "-f", ",".join(fields)] if kind == "count-distinct-n" else ["uniq", "-n", "-g", ",".join(fields)]
        got = run(ctx, case, args, rows)
        if got != [{"count": len(group(rows, fields))}]:
            ctx.fail(case, "%r: expected count %d got %r" % (args, len(group(rows, fields)), got))
        nt = len(group(rows, fields)) >= 2
    elif kind == "count-similar":
        fields = gf or ["g"]
        got = run(ctx, case, ["count-similar", "-g", ",".join(fields)], rows)
        groups = group(rows, fields)
        exp = []
        for k, ds in groups.items():
            for d in ds:
                e = dict(d)
                e["count"] = len(ds)
                exp.append(e)
        if [{k: (v if k == "count" or isinstance(v, str) else v) for k, v in g.items()} for g in _norm(got)] != _norm(exp):
            ctx.fail(case, "count-similar -g %s: expected %r got %r" % (fields, exp[:4], got[:4]))
        nt = len(groups) >= 2
    elif kind == "uniq-a-c":
        got = run(ctx, case, ["uniq", "-a", "-c"], rows)
        c = collections.OrderedDict()
        for r in rows:
            key = json.dumps([[k, (v if isinstance(v, str) else fnum(v))] for k, v in r])
            c[key] = c.get(key, 0) + 1
        if sum(g["count"] for g in got) != len(rows) or len(got) != len(c) or [g["count"] for g in got] != list(c.values()):
            ctx.fail(case, "uniq -a -c: counts %r expected %r" % ([g["count"] for g in got], list(c.values())))
        nt = len(c) >= 2
    elif kind == "step":
        got = run(ctx, case, ["step", "-a", "counter,delta,rsum,from-first,shift", "-f", "x"] + (["-g", ",".join(gf)] if gf else []), rows)
        state = {}
        exp = []
        for r in rows:
            d = dict(r)
            if not all(g in d for g in gf):
                exp.append(None)   # passes through untouched
                continue
            key = tuple(d[g] for g in gf)
            st_ = state.setdefault(key, {"n": 0, "prev": None, "sum": Fraction(0), "first": None, "gap": False})
            if "x" not in d:
                st_["gap"] = True   # what delta/shift do right after a record lacking the field is not documented: not asserted
                exp.append(None)
                continue
            x = d["x"]
            st_["n"] += 1
            st_["sum"] += Fraction(x)
            if st_["first"] is None:
                st_["first"] = x
            e = {"x_counter": st_["n"], "x_rsum": float(st_["sum"]), "x_from_first": float(Fraction(x) - Fraction(st_["first"]))}
            if not st_["gap"]:
                e["x_delta"] = 0 if st_["prev"] is None else float(Fraction(x) - Fraction(st_["prev"]))
                e["x_shift"] = "" if st_["prev"] is None else st_["prev"]
            st_["gap"] = False
            st_["prev"] = x
            exp.append(e)
        if len(got) != len(rows):
            ctx.fail(case, "step: %d records in, %d out" % (len(rows), len(got)))
        for r, e, g in zip(rows, exp, got):
            if e is None:
                if any(k.startswith("x_") for k in g):
                    ctx.fail(case, "step: record %r lacks the group-by or value field but got stepper output %r" % (r, g))
                continue
            for k, ev in e.items():
                gv = g.get(k)
                if ev == "":
                    if gv not in ("", None, "-"):
                        ctx.fail(case, "step: %s expected empty got %r" % (k, gv))
                elif isinstance(ev, int):
                    if not (gv == ev):
                        ctx.fail(case, "step: %s expected %r got %r (record %r)" % (k, ev, gv, r))
                elif not (isinstance(gv, (int, float)) and abs(gv - ev) <= 1e-9 * max(1, abs(ev))):
                    ctx.fail(case, "step: %s expected %r got %r (record %r)" % (k, ev, gv, r))
        nt = len(state) >= 1 and len(exp) >= 3
    elif kind == "step-window":
        # sliding-window averages, exponentially weighted moving averages (explicit and default weight), running products.
        # With a look-ahead window records of different groups (and records lacking a group-by field) leave in a different order
        # than they came in, so every record carries an index field and is matched by it.
        B, Fw = case["ps"][0] if isinstance(case["ps"][0], int) else 1, (case["ps"][-1] if isinstance(case["ps"][-1], int) else 2)
        B, Fw = B % 4, Fw % 4
        alphas = [[], ["0.25"], ["0.1", "0.9"]][len(case["ps"]) % 3]
        args = ["step", "-a", "slwin_%d_%d,ewma,rprod" % (B, Fw), "-f", "x"] + (["-d", ",".join(alphas)] if alphas else []) + (["-g", ",".join(gf)] if gf else [])
        irows = [[["i", idx]] + list(r) for idx, r in enumerate(rows)]
        got = run(ctx, case, args, irows)
        if sorted(g.get("i") for g in got) != list(range(len(rows))):
            ctx.fail(case, "step: records in %r, records out %r" % (list(range(len(rows))), [g.get("i") for g in got]))
        got = {g["i"]: g for g in got}
        seqs = collections.OrderedDict()
        for idx, r in enumerate(rows):
            d = dict(r)
            if all(g in d for g in gf):
                seqs.setdefault(tuple(d[g] for g in gf), []).append((idx, d.get("x")))
        member = {}
        for key, seq in seqs.items():
            # "Sliding-window averages over m records back and n forward": the window counts the group's records, and those lacking the field contribute nothing
            ew = {a: None for a in (alphas or ["0.5"])}
            prod = Fraction(1)
            for j, (idx, x) in enumerate(seq):
                if x is None:
                    continue
                win = [Fraction(v) for _, v in seq[max(0, j - B):j + Fw + 1] if v is not None]
                e = {"_%d_%d" % (B, Fw): float(sum(win) / len(win))}
                prod *= Fraction(x)
                e["_rprod"] = float(prod)
                for a in ew:
                    fa = Fraction(a)
                    ew[a] = Fraction(x) if ew[a] is None else fa * Fraction(x) + (1 - fa) * ew[a]
                    e["_ewma_" + a] = float(ew[a])
                member[idx] = e
        for idx, r in enumerate(rows):
            g = got[idx]
            e = member.get(idx)
            extra = [k for k in g if k.startswith("x_")]
            if e is None:
                if extra:
                    ctx.fail(case, "step: record %r lacks the group-by or value field but got stepper output %r" % (r, g))
                continue
            for suffix, ev in e.items():
                gv = g.get("x" + suffix)
                if not (isinstance(gv, (int, float)) and not isinstance(gv, bool) and abs(gv - ev) <= 1e-9 * max(1.0, abs(ev))):
                    ctx.fail(case, "step %s: field x%s of record %d is %r, recomputation from the definition gives %r (args %r)" % (
                        "sliding window" if suffix[1].isdigit() else suffix[1:], suffix, idx, gv, ev, args))
        nt = any(sum(1 for _, v in sq if v is not None) >= 3 for sq in seqs.values())
    elif kind == "step-shift":
        xs = [dict(r).get("x", 0) for r in rows]
        src = [[["i", i], ["x", x]] for i, x in enumerate(xs)]
        got = run(ctx, case, ["step", "-a", "shift_lag,shift_lead,shift_lag_2,shift_lead_2,delta_2", "-f", "x"], src)
        for i, g in enumerate(got):
            exp = {"x_shift_lag": xs[i - 1] if i >= 1 else "", "x_shift_lead": xs[i + 1] if i + 1 < len(xs) else "",
                   "x_shift_lag_2": xs[i - 2] if i >= 2 else "", "x_shift_lead_2": xs[i + 2] if i + 2 < len(xs) else ""}
            for k, ev in exp.items():
                gv = g.get(k)
                if (ev == "" and gv not in ("", None)) or (ev != "" and not (isinstance(gv, (int, float)) and abs(gv - ev) < 1e-9)):
                    ctx.fail(case, "step %s at record %d: expected %r got %r" % (k, i, ev, gv))
        if len(got) != len(src):
            ctx.fail(case, "step shift_lead: %d records in, %d out" % (len(src), len(got)))
        nt = len(xs) >= 3
    elif kind == "fraction":
        pos = [[["g", dict(r).get("g", "a")], ["x", abs(dict(r).get("x", 1)) + 1]] for r in rows]
        mode = case["ps"][0] if isinstance(case["ps"][0], int) else 0
        flags = (["-p"] if mode % 2 else []) + (["-c"] if mode % 3 == 0 else [])
        got = run(ctx, case, ["fraction", "-f", "x"] + (["-g", "g"] if gf else []) + flags, pos)
        sums = collections.defaultdict(Fraction)
        for r in pos:
            sums[r[0][1] if gf else ""] += Fraction(r[1][1])
        cum = collections.defaultdict(Fraction)
        name = "x_" + ("cumulative_" if "-c" in flags else "") + ("percent" if "-p" in flags else "fraction")
        for r, g in zip(pos, got):
            key = r[0][1] if gf else ""
            cum[key] += Fraction(r[1][1])
            num = cum[key] if "-c" in flags else Fraction(r[1][1])
            ev = float(num / sums[key]) * (100 if "-p" in flags else 1)
            if not (isinstance(g.get(name), (int, float)) and abs(g[name] - ev) <= 1e-9 * max(1, abs(ev))):
                ctx.fail(case, "fraction %r: %s expected %r got %r" % (flags, name, ev, g.get(name)))
        if len(got) != len(pos):
            ctx.fail(case, "fraction: %d in, %d out" % (len(pos), len(got)))
        nt = len(pos) >= 3
    elif kind == "histogram":
        xs = [dict(r)["x"] for r in rows if "x" in dict(r)]
        got = run(ctx, case, ["histogram", "-f", "x", "--lo", "-100", "--hi", "100", "--nbins", "4"], rows)
        counts = [0, 0, 0, 0]
        for x in xs:
            if -100 <= x < 100:
                counts[min(3, int((x + 100) / 50.0))] += 1
            elif x == 100:
                pass
        gotc = [g.get("x_count") for g in got]
        if len(got) != 4 or sum(gotc) > len(xs) or any(abs(a - b) > sum(1 for x in xs if x in (-100, -50, 0, 50, 100)) for a, b in zip(gotc, counts)):
            ctx.fail(case, "histogram: expected counts %r got %r" % (counts, gotc))
        nt = len(xs) >= 3
    elif kind in ("most-frequent", "least-frequent"):
        got = run(ctx, case, [kind, "-f", "g"], rows)
        c = collections.OrderedDict()
        for r in rows:
            d = dict(r)
            if "g" in d:
                c[d["g"]] = c.get(d["g"], 0) + 1
        gotpairs = [(str(g["g"]), g["count"]) for g in got]
        if sorted(gotpairs) != sorted(c.items()):
            ctx.fail(case, "%s -f g: expected multiset %r got %r" % (kind, list(c.items()), gotpairs))
        seq = [n for _, n in gotpairs]
        if seq != sorted(seq, reverse=(kind == "most-frequent")):
            ctx.fail(case, "%s: counts not in order: %r" % (kind, seq))
        nt = len(c) >= 2
    elif kind == "fill-down":
        src = [[["i", str(i)]] + ([["x", ("" if j == 1 else "v%d" % i)]] if j else []) for i, j in enumerate([len(r) % 3 for r in rows])]
        for flags, absent_only in ((["-f", "x"], False), (["-a", "-f", "x"], True), (["--all"], False)):
            got = run(ctx, case, ["fill-down"] + flags, src)
            last = None
            for r, g in zip(src, got):
                d = dict(r)
                ev = d.get("x")
                if flags == ["--all"]:
                    if "x" not in d:
                        if g.get("x") is not None:
                            ctx.fail(case, "fill-down --all created a field: %r -> %r" % (r, g))
                        continue
                    missing = d["x"] == ""
                else:
                    missing = ("x" not in d) or (d["x"] == "" and not absent_only)
                if missing and last is not None:
                    ev = last
                elif not missing:
                    last = d["x"]
                gv = g.get("x")
                if (ev is None and gv is not None) or (ev is not None and str(gv) != ev):
                    ctx.fail(case, "fill-down %r: record %r expected x=%r got %r" % (flags, r, ev, gv))
        nt = len(src) >= 3
    elif kind == "dsl-stats":
        xs = [dict(r)["x"] for r in rows if "x" in dict(r)]
        if not xs:
            return
        lit = "[" + ",".join(fnum(x) for x in xs) + "]"
        fns = ["count", "sum", "mean", "median", "minlen", "maxlen", "distinct_count", "mode", "antimode", "null_count"] + (["variance", "stddev", "meaneb", "var"] if len(xs) >= 2 else [])
        fns = [f for f in fns if f != "var"]
        prog = "end{" + "".join('print "%s=" . json_encode(%s(%s));' % (f, f, lit) for f in fns)
        prog += 'print "pct=" . json_encode(percentiles(%s, [%s]%s));' % (lit, ",".join(str(p) for p in ps), ', {"interpolate_linearly": true}' if interp else "")
        prog += 'print "sorted=" . json_encode(sort_collection(%s));' % lit
        prog += "}"
        prog = prog.replace("json_encode", "json_stringify")
        res = ctx.mlr(["-n", "put", prog])
        if res.rc != 0:
            ctx.fail(case, "DSL stats failed: %s" % res.err[:300])
        vals = dict(l.split("=", 1) for l in res.out.decode().splitlines() if "=" in l)
        ex = stats_of(xs, ps, interp)
        mapping = {"count": "count", "sum": "sum", "mean": "mean", "minlen": "minlen", "maxlen": "maxlen", "distinct_count": "distinct_count", "variance": "var", "stddev": "stddev", "meaneb": "meaneb"}
        for fn, key in mapping.items():
            if fn not in vals:
                continue
            gv = json.loads(vals[fn])
            ev = ex[key]
            if ev is None:
                continue
            sq = (lambda v: v * v) if key in ("stddev", "meaneb") else (lambda v: v)
            ok = (gv == ev) if key in ("count", "minlen", "maxlen", "distinct_count") else (isinstance(gv, (int, float)) and gv == gv and (key not in ("var", "stddev", "meaneb") or gv >= 0) and close(sq(gv), sq(ev), max(abs(x) for x in xs) ** 2 + 1))
            if not ok:
                ctx.fail(case, "DSL %s(%s): expected %r got %r" % (fn, lit, ev, gv))
        gm = json.loads(vals["mode"])
        if fnum(gm) != ex["mode"]:
            ctx.fail(case, "DSL mode(%s): expected %s got %r" % (lit, ex["mode"], gm))
        if json.loads(vals["null_count"]) != 0:
            ctx.fail(case, "DSL null_count of numbers != 0")
        gs = json.loads(vals["sorted"])
        if gs != sorted(xs):
            ctx.fail(case, "sort_collection(%s) = %r" % (lit, gs))
        gp = json.loads(vals["pct"])
        srt = sorted(xs)
        for p in ps:
            if ambiguous_p(p, len(xs)):
                continue
            gv = gp.get(str(p))
            ev = pctl(srt, p, interp)
            if not (isinstance(gv, (int, float)) and abs(gv - ev) <= 1e-9 * max(1, abs(ev))):
                ctx.fail(case, "DSL percentiles(%s, %s, interp=%s): expected %r got %r" % (lit, p, interp, ev, gv))
        nt = len(xs) >= 3
    elif kind == "top":
        xs = [(dict(r).get("g"), dict(r)["x"]) for r in rows if "x" in dict(r) and "g" in dict(r)]
        got = run(ctx, case, ["top", "-n", "2", "-f", "x", "-g", "g"], rows)
        groups = collections.OrderedDict()
        for g, x in xs:
            groups.setdefault(g, []).append(x)
        exp = []
        for g, vs in groups.items():
            for i, v in enumerate(sorted(vs, reverse=True)[:2]):
                exp.append((g, i + 1, float(v)))
        gotl = [(str(g["g"]), g["top_idx"], float(g["x_top"])) for g in got if g.get("x_top") not in ("", None)]
        if gotl != exp:
            ctx.fail(case, "top -n 2 -f x -g g: expected %r got %r" % (exp, gotl))
        nt = len(groups) >= 2
    else:
        raise ValueError(kind)
    ctx.case(case, bool(nt), labels=(kind,), sample={"kind": kind, "gf": gf, "rows": rows[:3]} if nt else None)


def _norm(recs):
    out = []
    for r in recs:
        out.append({k: (fnum(v) if isinstance(v, (int, float)) and not isinstance(v, bool) and k != "count" else v) for k, v in r.items()})
    return out


def sub_agg(ctx):
    ctx.hyp(case_strategy(), lambda c: body(ctx, c), ctx.n(2400, 60000))


SUBCHECKS = [
    Sub("aggregating_verbs", sub_agg, body, shards={"quick": 12, "thorough": 16}, cost=3, rule=RULE),
]

KNOWN = {}
