"""C05 - then-chaining equals piping; inputs concatenate; NR/FNR/FILENAME track source; input sources."""
import bz2
import gzip
import json
import os
import shutil
import subprocess
import zlib

from hypothesis import strategies as st

from vlib.core import Sub
from vlib import run as vrun

LEVEL = "exploration"
RULE = ("(1) Hypothesis: JSON streams (narrow and >=12-field records) x chains of 2-4 verbs from ~60 variants: `mlr A then B ...` byte-identical to "
        "`mlr A | mlr B | ...` (all-JSON pipeline), and text pipelines through csv/tsv/dkvp/xtab for non-computing verbs; (2) Hypothesis: a stream split "
        "into 1-5 files (empty files, differing widths/headers, implicit header) read together == concatenation of reading each alone, NR/FNR/FILENAME/"
        "FILENUM/NF/end-block NR equal Python bookkeeping; (3) the same bytes via file, stdin, --from, --mfrom, --ofmt, .gz/.bz2/.z/.zst by extension and by "
        "flag, --prepipe/--prepipex/--prepipe-gunzip etc., file names with spaces; non-trivial = both verbs change the stream / >=2 non-empty files "
        "with an empty or differing one / a compressed or prepiped source")
ASSUMPTIONS = ["Python gzip/bz2/zlib produce standard streams", "zstd binary on PATH (cases skipped and counted when absent)"]

VAL = st.one_of(st.integers(1, 50), st.sampled_from(["x", "y", "zz", "pan"]), st.integers(1, 200).map(lambda n: n / 8))

VERBS = [["cat"], ["cat", "-n"], ["cat", "-n", "-g", "a"], ["head", "-n", "2"], ["head", "-n", "1", "-g", "a"], ["tail", "-n", "2"], ["tac"], ["sort", "-f", "a"],
         ["sort", "-nr", "i"], ["count", "-g", "a"], ["count-distinct", "-f", "a"], ["count-similar", "-g", "a"], ["stats1", "-a", "sum,count,max", "-f", "i", "-g", "a"],
         ["step", "-a", "rsum,delta,counter", "-f", "i"], ["cut", "-f", "a,i"], ["cut", "-x", "-f", "x"], ["rename", "i,j"], ["reorder", "-e", "-f", "a"], ["unsparsify"],
         ["regularize"], ["group-by", "a"], ["group-like"], ["fill-down", "-a", "-f", "y"], ["put", "$z = $i + 1"], ["put", '$w = $a . "s"'],
         ["put", "-q", '@s[$a] = $i; end{emit @s,"a"}'], ["filter", "$i > 3"], ["uniq", "-g", "a"], ["uniq", "-g", "a", "-c"], ["top", "-f", "i", "-g", "a"], ["decimate", "-n", "2"],
         ["nest", "--ivar", ";", "-f", "x"], ["sec2gmt", "i"], ["label", "q,r"], ["sort-within-records"], ["merge-fields", "-a", "sum", "-f", "i,z", "-o", "o"],
         ["fraction", "-f", "i"], ["most-frequent", "-f", "a"], ["template", "-f", "i,a,q"],
         # verbs that look fields up by name after an upstream rename/reorder (key-index consistency across the chain boundary)
         ["rename", "a,aa"], ["rename", "x,xx"], ["rename", "f07,zz"], ["sort", "-f", "aa"], ["sort", "-nr", "zz"], ["head", "-n", "1", "-g", "aa"], ["cut", "-o", "-f", "zz,aa,i"],
         ["reorder", "-f", "zz"], ["put", "$n = $zz . $aa"], ["put", "$aa = 1"], ["put", "$a = 7"], ["cut", "-x", "-f", "a"], ["count-similar", "-g", "aa"],
         ["rename", "-r", "^f0(.)$,g\\1"], ["sort", "-f", "g7"], ["put", "$[[1]] = \"first\""], ["put", "$[[2]] = \"a\""], ["put", "unset $xx"], ["sec2gmt", "zz"],
         ["fill-empty"], ["sparsify"], ["put", "$*  = mapexcept($*, \"f03\")"], ["put", "-q", "emit mapsum($*, {\"k\": NF})"], ["having-fields", "--at-least", "zz"]]
TEXT_VERBS = [["cat"], ["head", "-n", "2"], ["tail", "-n", "2"], ["tac"], ["decimate", "-n", "2"], ["cut", "-f", "a,i"], ["cut", "-x", "-f", "x"], ["rename", "i,j"], ["reorder", "-e", "-f", "a"],
              ["label", "q,r"], ["regularize"], ["group-by", "a"], ["group-like"], ["fill-down", "-a", "-f", "i"], ["unsparsify"], ["sort", "-f", "a"], ["sort", "-r", "x"], ["uniq", "-g", "a"],
              ["rename", "a,aa"], ["sort", "-f", "aa"], ["cut", "-o", "-f", "x,aa"], ["head", "-n", "1", "-g", "aa"], ["rename", "f07,zz"], ["sort", "-r", "zz"]]


@st.composite
def stream(draw, wide_ok=True):
    n = draw(st.integers(0, 8))
    wide = wide_ok and draw(st.integers(0, 2)) == 0
    out = []
    for i in range(n):
        r = {"a": draw(st.sampled_from(["p", "q", "r"])), "i": draw(st.integers(1, 9)), "x": draw(VAL)}
        if draw(st.booleans()):
            r["y"] = draw(VAL)
        if wide:
            for j in range(10):
                r["f%02d" % j] = draw(st.integers(0, 30))
        out.append(r)
    return out


@st.composite
def chain_case(draw):
    text = draw(st.integers(0, 3)) == 0
    pool = TEXT_VERBS if text else VERBS
    recs = draw(stream())
    if text:
        recs = [{k: v for k, v in r.items() if k != "y"} for r in recs]
        for r in recs:
            r["x"] = str(r["x"])
    return {"recs": recs, "chain": draw(st.lists(st.sampled_from(pool), min_size=2, max_size=4)), "fmt": draw(st.sampled_from(["csv", "tsv", "dkvp", "xtab"])) if text else "json",
            "jv": draw(st.booleans())}


def body_chain(ctx, case):
    recs, chain, fmt = case["recs"], case["chain"], case["fmt"]
    inp = json.dumps(recs).encode()
    if fmt == "json":
        io = ["--json"] + (["--jvstack"] if case["jv"] else ["--no-jvstack"])
        first_in = io
    else:
        io = ["--" + fmt]
        first_in = ["--ijson", "--o" + fmt]
    args = list(first_in)
    for k, v in enumerate(chain):
        if k:
            args.append("then")
        args += v
    p = ctx.mlr(args, stdin=inp)
    data = inp
    rcs = []
    for k, v in enumerate(chain):
        q = ctx.mlr((first_in if k == 0 else io) + v, stdin=data)
        rcs.append(q.rc)
        data = q.out
        if q.rc != 0:
            break
        # the statement is about *lossless* intermediate formats: an error value prints as the bare token (error), which is not JSON, and a
        # record without fields has no CSV/TSV representation (it is written as an empty header line and read back as one empty field)
        if k < len(chain) - 1 and ((fmt == "json" and b"(error)" in data) or (fmt in ("csv", "tsv", "csvlite", "xtab") and (data.startswith(b"\n") or b"\n\n\n" in data)) or
                                   (fmt in ("dkvp", "nidx") and (data.startswith(b"\n") or b"\n\n" in data))):
            ctx.excluded["intermediate document is not lossless (error value in JSON / record without fields in a line format)"] += 1
            return
    changing = sum(1 for v in chain if v != ["cat"])
    ctx.case(case, changing >= 2 and len(recs) >= 2, labels=("pipe-" + fmt, "wide" if any(len(r) >= 12 for r in recs) else "narrow"),
             sample={"chain": chain, "fmt": fmt, "nrec": len(recs)} if changing >= 2 else None)
    if p.rc != 0 or any(rcs):
        if not (p.rc != 0 and any(rcs)):
            ctx.fail(case, "chain %r: chained rc=%s piped rcs=%s: %s" % (chain, p.rc, rcs, p.err[:200]))
        return
    if p.out != data:
        ctx.fail(case, "`then` chain differs from the pipe for %r (via %s):\n  chained %r\n  piped   %r" % (chain, fmt, p.out[:500], data[:500]))


# ---------------------------------------------------------------------------------------------
# (2) files

@st.composite
def files_case(draw):
    fmt = draw(st.sampled_from(["csv", "csv-implicit", "csvlite", "dkvp", "json", "tsv", "nidx"]))
    nfiles = draw(st.integers(1, 5))
    files = []
    for f in range(nfiles):
        nrec = draw(st.sampled_from([0, 0, 1, 2, 3, 4]))
        width = draw(st.integers(1, 4))
        if fmt in ("csv", "tsv") and files:
            pass
        keys = ["k%d" % i for i in range(width)] if fmt not in ("csv-implicit", "nidx") else [str(i + 1) for i in range(width)]
        recs = [[[k, str(draw(st.integers(0, 99)))] for k in keys] for _ in range(nrec)]
        files.append({"keys": keys, "recs": recs})
    return {"fmt": fmt, "files": files, "rpb": draw(st.sampled_from([None, 1, 2])), "mode": draw(st.sampled_from(["context", "concat", "head1", "catng", "nf"]))}


def render(fmt, keys, recs):
    if fmt == "csv":
        return "".join(",".join(r) + "\n" for r in ([keys] if recs or True else []) + [[v for _, v in r] for r in recs]) if (recs or keys) else ""
    if fmt == "csv-implicit":
        return "".join(",".join(v for _, v in r) + "\n" for r in recs)
    if fmt == "csvlite":
        return "".join(",".join(r) + "\n" for r in [keys] + [[v for _, v in r] for r in recs])
    if fmt == "tsv":
        return "".join("\t".join(r) + "\n" for r in [keys] + [[v for _, v in r] for r in recs])
    if fmt == "dkvp":
        return "".join(",".join("%s=%s" % (k, v) for k, v in r) + "\n" for r in recs)
    if fmt == "nidx":
        return "".join(" ".join(v for _, v in r) + "\n" for r in recs)
    if fmt == "json":
        return "[" + ",".join("{" + ",".join('"%s": %s' % (k, v) for k, v in r) + "}" for r in recs) + "]\n"
    raise ValueError(fmt)


IFLAGS = {"csv": ["--icsv"], "csv-implicit": ["--icsv", "--implicit-csv-header"], "csvlite": ["--icsvlite"], "tsv": ["--itsv"], "dkvp": ["--idkvp"], "nidx": ["--inidx", "--ifs", "space"], "json": ["--ijson"]}


def body_files(ctx, case):
    fmt, files, mode = case["fmt"], case["files"], case["mode"]
    d = vrun.newdir("f")
    paths = []
    for i, f in enumerate(files):
        p = os.path.join(d, "in%d.%s" % (i, "dat"))
        with open(p, "w") as fh:
            fh.write(render(fmt, f["keys"], f["recs"]))
        paths.append(p)
    pre = (["--records-per-batch", str(case["rpb"])] if case.get("rpb") else []) + IFLAGS[fmt] + ["--ojsonl"]
    total = sum(len(f["recs"]) for f in files)
    nonempty = sum(1 for f in files if f["recs"])
    ctx.case(case, nonempty >= 2 and (nonempty < len(files) or len({tuple(f["keys"]) for f in files if f["recs"]}) > 1),
             labels=("files-" + fmt, mode), sample={"fmt": fmt, "mode": mode, "shapes": [(len(f["keys"]), len(f["recs"])) for f in files]})
    if mode == "context":
        prog = '$nr=NR; $fnr=FNR; $fname=FILENAME; $fnum=FILENUM; end{emit1 {"end_nr": NR}}'
        res = ctx.mlr(pre + ["put", prog] + paths)
        if res.rc != 0:
            ctx.fail(case, "reading %d %s files failed: %s" % (len(files), fmt, res.err[:300]))
        got = [json.loads(l) for l in res.out.decode().splitlines()]
        exp = []
        nr = 0
        for i, f in enumerate(files):
            for j, r in enumerate(f["recs"]):
                nr += 1
                e = {k: int(v) for k, v in r}
                e.update({"nr": nr, "fnr": j + 1, "fname": paths[i], "fnum": i + 1})
                exp.append(e)
        exp.append({"end_nr": total})
        if got != exp:
            i = next((i for i, (a, b) in enumerate(zip(got, exp)) if a != b), min(len(got), len(exp)))
            ctx.fail(case, "NR/FNR/FILENAME/FILENUM bookkeeping differs at output %d: expected %r got %r (%d vs %d lines)" % (
                i, exp[i] if i < len(exp) else None, got[i] if i < len(got) else None, len(exp), len(got)))
    elif mode == "concat":
        res = ctx.mlr(pre + ["cat"] + paths)
        parts = []
        for p in paths:
            q = ctx.mlr(pre + ["cat", p])
            if q.rc != 0:
                ctx.fail(case, "reading one file failed: %s" % q.err[:200])
            parts.append(q.out)
        if res.rc != 0 or res.out != b"".join(parts):
            ctx.fail(case, "reading f1..fn differs from the concatenation of reading each alone: rc=%s %s\n  together %r\n  apart    %r" % (
                res.rc, res.err[:200], res.out[:300], b"".join(parts)[:300]))
    elif mode == "head1":
        # early exit in an earlier verb must not corrupt the context of later records
        res = ctx.mlr(pre + ["put", "$fnr=FNR; $fnum=FILENUM", "then", "head", "-n", "1", "-g", "fnum"] + paths)
        if res.rc != 0:
            ctx.fail(case, "head -g over files failed: %s" % res.err[:200])
        got = [json.loads(l) for l in res.out.decode().splitlines()]
        exp = [i + 1 for i, f in enumerate(files) if f["recs"]]
        if [g["fnum"] for g in got] != exp or any(g["fnr"] != 1 for g in got):
            ctx.fail(case, "first record of each file: expected FILENUMs %r with FNR 1, got %r" % (exp, [(g["fnum"], g["fnr"]) for g in got]))
    elif mode == "catng":
        res = ctx.mlr(pre + ["cat", "-n", "--filename", "--filenum"] + paths)
        if res.rc != 0:
            ctx.fail(case, "cat -n --filename failed: %s" % res.err[:200])
        got = [json.loads(l) for l in res.out.decode().splitlines()]
        exp = []
        n = 0
        for i, f in enumerate(files):
            for r in f["recs"]:
                n += 1
                exp.append((n, paths[i], i + 1))
        if [(g.get("n"), g.get("filename"), g.get("filenum")) for g in got] != exp:
            ctx.fail(case, "cat -n --filename --filenum: expected %r got %r" % (exp[:5], [(g.get("n"), g.get("filename"), g.get("filenum")) for g in got][:5]))
    elif mode == "nf":
        res = ctx.mlr(pre + ["put", "-q", "$new = NF; $new2 = NF; unset $new; emit1 {\"nf\": NF, \"n2\": $new2}"] + paths)
        if res.rc != 0:
            ctx.fail(case, "NF program failed: %s" % res.err[:200])
        got = [json.loads(l) for l in res.out.decode().splitlines()]
        exp = [{"nf": len(r) + 1, "n2": len(r) + 1} for f in files for r in f["recs"]]
        if got != exp:
            ctx.fail(case, "NF mid-expression: expected %r got %r" % (exp[:4], got[:4]))


# ---------------------------------------------------------------------------------------------
# (3) sources

HAVE_ZSTD = shutil.which("zstd", path="/usr/local/bin:/usr/bin:/bin:/root/miniconda/bin")


@st.composite
def source_case(draw):
    n = draw(st.sampled_from([0, 1, 3, 40, 700, 5000, 30000]))
    recs = [[["a", str(draw(st.integers(0, 9)))], ["b", draw(st.sampled_from(["x", "y y", "0xff"]))], ["c", str(i)]] for i in range(min(n, 6))]
    return {"head": recs, "n": n, "how": draw(st.sampled_from(["stdin", "from", "mfrom", "gz-ext", "gz-flag", "bz2-ext", "bz2-flag", "z-ext", "z-flag", "zst-ext", "zst-flag", "prepipe-gunzip",
                                                          "prepipex", "prepipe-builtin-gunzip", "prepipe-builtin-zcat", "prepipe-builtin-bz2", "prepipe-cat", "spacey-name", "two-files-gz-plain"])),
            "fmt": draw(st.sampled_from(["dkvp", "csv", "json"]))}


def body_source(ctx, case):
    how, fmt = case["how"], case["fmt"]
    recs = case["head"] + [[["a", "1"], ["b", "q"], ["c", str(i)]] for i in range(6, case["n"])]
    f = {"dkvp": "dkvp", "csv": "csv", "json": "json"}[fmt]
    text = render(f, [k for k, _ in recs[0]] if recs else ["a", "b", "c"], [[[k, (v if fmt != "json" else json.dumps(v))] for k, v in r] for r in recs]).encode()
    if fmt == "csv" and not recs:
        text = b"a,b,c\n"
    d = vrun.newdir("s")
    plain = os.path.join(d, "plain.dat")
    with open(plain, "wb") as fh:
        fh.write(text)
    io = ["--i" + f, "--ojson"]
    base = ctx.mlr(io + ["cat", plain])
    if base.rc != 0:
        ctx.fail(case, "plain file failed: %s" % base.err[:200])

    def w(name, data):
        p = os.path.join(d, name)
        with open(p, "wb") as fh:
            fh.write(data)
        return p
    env = None
    stdin = None
    if how == "stdin":
        args, stdin = io + ["cat"], text
    elif how == "from":
        args = io + ["--from", plain, "cat"]
    elif how == "mfrom":
        args = io + ["--mfrom", plain, "--", "cat"]
    elif how == "gz-ext":
        args = io + ["cat", w("x.gz", gzip.compress(text))]
    elif how == "gz-flag":
        args = io + ["--gzin", "cat", w("x.dat", gzip.compress(text))]
    elif how == "bz2-ext":
        args = io + ["cat", w("x.bz2", bz2.compress(text))]
    elif how == "bz2-flag":
        args = io + ["--bz2in", "cat", w("x.dat", bz2.compress(text))]
    elif how == "z-ext":
        args = io + ["cat", w("x.z", zlib.compress(text))]
    elif how == "z-flag":
        args = io + ["--zin", "cat", w("x.dat", zlib.compress(text))]
    elif how in ("zst-ext", "zst-flag"):
        if not HAVE_ZSTD:
            ctx.label("zstd-absent-skipped")
            return
        z = subprocess.run([HAVE_ZSTD, "-q", "-c"], input=text, stdout=subprocess.PIPE).stdout
        args = io + (["cat", w("x.zst", z)] if how == "zst-ext" else ["--zstdin", "cat", w("x.dat", z)])
    elif how == "prepipe-gunzip":
        args = io + ["--prepipe", "gunzip", "cat", w("y.dat", gzip.compress(text))]
    elif how == "prepipex":
        args = io + ["--prepipex", "gunzip <", "cat", w("y.dat", gzip.compress(text))]
    elif how == "prepipe-builtin-gunzip":
        args = io + ["--prepipe-gunzip", "cat", w("y.dat", gzip.compress(text))]
    elif how == "prepipe-builtin-zcat":
        args = io + ["--prepipe-zcat", "cat", w("y.dat", gzip.compress(text))]
    elif how == "prepipe-builtin-bz2":
        args = io + ["--prepipe", "bzip2 -dc", "cat", w("y.dat", bz2.compress(text))]
    elif how == "prepipe-cat":
        args = io + ["--prepipe", "cat", "cat", plain]
    elif how == "spacey-name":
        args = io + ["--prepipe", "cat", "cat", w("a b 'c.dat", text)]
    elif how == "two-files-gz-plain":
        both = ctx.mlr(io + ["cat", w("x.gz", gzip.compress(text)), plain])
        twice = ctx.mlr(io + ["cat", plain, plain])
        ctx.case(case, True, labels=("src-" + how,))
        if both.rc != 0 or both.out != twice.out:
            ctx.fail(case, "gz + plain differs from plain + plain: rc=%s %s" % (both.rc, both.err[:200]))
        return
    else:
        raise ValueError(how)
    ctx.case(case, how not in ("stdin", "from", "mfrom"), labels=("src-" + how, "n=%d" % len(recs)), sample={"how": how, "fmt": fmt, "n": len(recs)})
    # pipes are timing-sensitive: repeat, also on one CPU
    for attempt in range(3 if "prepipe" in how or how == "spacey-name" else 1):
        res = ctx.mlr(args, stdin=stdin, env_extra={"GOMAXPROCS": "1"} if attempt == 1 else None)
        if res.rc != 0 or res.out != base.out:
            ctx.fail(case, "source %s (attempt %d): rc=%s, output differs from the plain file (%d vs %d bytes): %s" % (
                how, attempt, res.rc, len(res.out), len(base.out), res.err[:300]))


def sub_chain(ctx):
    ctx.hyp(chain_case(), lambda c: body_chain(ctx, c), ctx.n(700, 20000))


def sub_files(ctx):
    ctx.hyp(files_case(), lambda c: body_files(ctx, c), ctx.n(500, 10000))


def sub_sources(ctx):
    ctx.hyp(source_case(), lambda c: body_source(ctx, c), ctx.n(250, 4000))


SUBCHECKS = [
    Sub("chain_equals_pipe", sub_chain, body_chain, shards={"quick": 7, "thorough": 16}, cost=3, rule="then-chain == pipe, JSON and text pipelines"),
    Sub("files_and_context", sub_files, body_files, shards={"quick": 5, "thorough": 10}, cost=2, rule="multi-file concatenation and NR/FNR/FILENAME/FILENUM/NF bookkeeping"),
    Sub("input_sources", sub_sources, body_source, shards={"quick": 3, "thorough": 6}, cost=1, rule="file/stdin/--from/--mfrom/compressed/prepipe sources give identical records"),
]

KNOWN = {}
