"""C15 - string, regex, formatting and hash functions match independent references."""
import base64
import hashlib
import json
import re

from hypothesis import strategies as st

from vlib.core import Sub
from vlib import gen

LEVEL = "exploration"
RULE = ("Hypothesis: rows of (subject, regex from a safe RE2/Python-common subset, replacement template, indices, pad strings, numbers, formats) "
        "evaluated 10-40 per invocation through one `put` with ~35 function applications each, observed through TSV; oracles: Python str (code points), "
        "re, hashlib, base64, binascii, codecs, %-formatting; inverse pairs; verb == function; DSL string-literal escapes; =~ capture state; "
        "non-trivial = an argument contains a multi-byte character or a regex/format metacharacter, or an index outside 1..len")
ASSUMPTIONS = ["Go regexp and Python re agree on the generated subset (leftmost-first, greedy, ASCII classes, no empty matches for global functions)",
               "Python % formatting == C printf on the generated formats"]

CHARS = st.sampled_from(list("abcAB .") + ["\u00e9", "\u4e2d", "\U0001F600", "\u00e9", "  ", "ab", "e\u0301", "\u00df", "1", "0", "-", "_", "\u00b7"])
TEXT = st.lists(CHARS, max_size=8).map("".join)
ATOM = st.sampled_from(["a", "b", "c", ".", "[ab]", "[^a]", "\u00e9", "\\.", "A", " ", "[0-9]", "\\d", "[a-c]", "1", "(b)", "(a|b)", "([0-9])?", "(c)?", "\\w", "\\s"])
QUANT = st.sampled_from(["", "", "*", "+", "?", "{1,2}", "{2}"])
PIECE = st.tuples(ATOM, QUANT).map(lambda t: t[0] + (t[1] if not t[0].endswith("?") else ""))


@st.composite
def regex(draw):
    ps = draw(st.lists(PIECE, min_size=1, max_size=3))
    r = "".join(ps)
    k = draw(st.integers(0, 3))
    if k == 1 and "(" not in r:
        r = "(" + r + ")"
    elif k == 2 and "(" not in r:
        r = "(" + ps[0] + ")" + "".join(ps[1:])
    elif k == 3:
        r = r + "|" + draw(PIECE)
    if draw(st.integers(0, 5)) == 0:
        r = "^" + r
    if draw(st.integers(0, 5)) == 0:
        r = r + "$"
    return r


ROW = st.fixed_dictionaries({
    "s": TEXT, "r": regex(), "p": st.sampled_from(["X", "<\\1>", "\\0\\0", "", "[\\1|\\2]", "\\1\\1", "a\\0b"]),
    "m": st.integers(-4, 11), "n": st.integers(-4, 11), "pad": st.sampled_from(["*", "0", "XY", "\u00b7", "\U0001F600", "\u00e9x", " "]), "w": st.integers(0, 12),
    "lit": st.sampled_from(["a", ".", "ab", "\u00e9", " ", "b.", "*", "[", "\\", "A", "1"]),
})


@st.composite
def optional_group_row(draw):
    """Several matches in one subject where an optional/alternated group participates in some matches and not in others."""
    lit = draw(st.sampled_from(["ab", "a", "x-", "\u00e9"]))
    pieces = draw(st.lists(st.sampled_from([lit + "1", lit, lit + "7", " ", "z", lit + "c"]), min_size=2, max_size=6))
    r = draw(st.sampled_from([lit + "([0-9])?", lit + "([0-9]|(c))?", "(" + lit + ")([0-9])?", lit + "(c)?([0-9])?"]))
    base = draw(ROW)
    base.update({"s": "".join(pieces), "r": r, "p": draw(st.sampled_from(["<\\1>", "[\\1|\\2]", "\\2\\1", "(\\0:\\1)"]))})
    return base


ROWS = st.one_of(ROW, ROW, ROW, optional_group_row())


def expand(repl):
    return re.sub(r"\\([0-9])", lambda m: "\\g<%s>" % m.group(1), repl.replace("\\\\", "\\\\\\\\"))


def tsv_rows(out):
    lines = out.decode("utf-8", "replace").split("\n")
    if lines and lines[-1] == "":
        lines.pop()
    if not lines:
        return []
    hdr = lines[0].split("\t")
    return [dict(zip(hdr, [gen.tsv_decode(x) for x in l.split("\t")])) for l in lines[1:]]


PROG = ('$len=strlen($s); $up=toupper($s); $lo=tolower($s); $cap=capitalize($s); $strip=strip($s); $ls=lstrip($s); $rs=rstrip($s); $cw=collapse_whitespace($s); '
        '$sub=sub($s,$r,$p); $gsub=gsub($s,$r,$p); $ssub=ssub($s,$lit,"Z"); $gssub=gssub($s,$lit,"Z"); $mt = $s =~ $r; $nmt = $s !=~ $r; $any = strmatch($s, $r); '
        '$rx=regextract_or_else($s,$r,"NONE"); $s1=substr1($s,$m,$n); $s0=substr0($s,$m,$n); $sb=substr($s,$m,$n); $tr=truncate($s, $w); '
        '$md5=md5($s); $sha1=sha1($s); $sha=sha256($s); $sha5=sha512($s); $b64=base64_encode($s); $b64d=string(base64_decode($b64)); $hx=hex_encode($s); $hxd=string(hex_decode($hx)); '
        '$lp=leftpad($s,$w,$pad); $rp=rightpad($s,$w,$pad); $fmt=format("{}:{}",$s,$m); $idx=index($s,$lit); $ct=contains($s,$lit); '
        '$spj=joinv(splitax($s . "," . $lit, ","), ","); $mx = strmatchx($s, $r)["matched"]; $fc = strmatchx($s, $r)["full_capture"] ?? "NONE"; $fs = strmatchx($s, $r)["full_start"] ?? 0; $fcs = substr1($s, strmatchx($s, $r)["full_start"] ?? 1, strmatchx($s, $r)["full_end"] ?? 0);'
        '$js = json_decode(json_encode($s)); $l1 = latin1_to_utf8(utf8_to_latin1($s))')


def py_strip(s, left=True, right=True):
    ws = " \t\n\r"
    if left:
        s = s.lstrip(ws)
    if right:
        s = s.rstrip(ws)
    return s


def body_rows(ctx, case):
    rows = case["rows"]
    res = ctx.mlr(["--ijson", "--otsv", "put", PROG.replace("json_decode", "json_parse").replace("json_encode", "json_stringify")], stdin=json.dumps(rows, sort_keys=True).encode(), timeout=60)
    if res.rc != 0 or res.panicked:
        ctx.fail(case, "string-function batch failed rc=%s: %s" % (res.rc, res.err[:400].decode("utf-8", "replace")))
    outs = tsv_rows(res.out)
    if len(outs) != len(rows):
        ctx.fail(case, "row count %d in, %d out" % (len(rows), len(outs)))
    for rc, o in zip(rows, outs):
        s, r, pp, m, n, pad, w, lit = rc["s"], rc["r"], rc["p"], rc["m"], rc["n"], rc["pad"], rc["w"], rc["lit"]
        cps = list(s)
        L = len(cps)
        one = {"rows": [rc]}
        nt = any(ord(c) > 127 for c in s + pad) or m < 1 or n > L or any(c in r for c in "[(*+?")
        ctx.case(("row", json.dumps(rc, sort_keys=True)), nt, sample=rc if nt and len(ctx.samples) < 3 else None)

        def chk(name, exp):
            if str(o.get(name)) != str(exp):
                ctx.fail(one, "%s: mlr gives %r, reference gives %r   (s=%r r=%r p=%r m=%d n=%d pad=%r w=%d lit=%r)" % (name, o.get(name), exp, s, r, pp, m, n, pad, w, lit))
        chk("len", L)
        if "\u00df" not in s:
            chk("up", s.upper())
        chk("lo", s.lower())
        if s and "\u00df" not in s[:1]:
            chk("cap", s[:1].upper() + s[1:])
        chk("strip", py_strip(s))
        chk("ls", py_strip(s, right=False))
        chk("rs", py_strip(s, left=False))
        chk("cw", re.sub(r"\s+", " ", s))
        chk("ssub", s.replace(lit, "Z", 1))
        chk("gssub", s.replace(lit, "Z"))
        cre = re.compile(r, re.ASCII)
        mm = cre.search(s)
        chk("mt", "true" if mm else "false")
        chk("nmt", "false" if mm else "true")
        chk("any", "true" if mm else "false")
        chk("mx", "true" if mm else "false")
        if mm:
            chk("fc", mm.group(0))
            chk("fs", len(s[:mm.start()]) + 1)
            chk("fcs", mm.group(0))
        if s != "":
            chk("rx", mm.group(0) if mm else "NONE")
        ngroups = cre.groups
        refs = [int(x) for x in re.findall(r"\\([0-9])", pp)]
        if all(g <= ngroups for g in refs):
            chk("sub", cre.sub(expand(pp), s, count=1))
            if not cre.search("") and not any(x.group(0) == "" for x in cre.finditer(s)):
                chk("gsub", cre.sub(expand(pp), s))
        chk("md5", hashlib.md5(s.encode()).hexdigest())
        chk("sha1", hashlib.sha1(s.encode()).hexdigest())
        chk("sha", hashlib.sha256(s.encode()).hexdigest())
        chk("sha5", hashlib.sha512(s.encode()).hexdigest())
        chk("b64", base64.b64encode(s.encode()).decode())
        chk("b64d", s)
        chk("hx", s.encode().hex())
        chk("hxd", s)

        def alias(i, base):
            return i + L + base if i < 0 else i
        lo, hi = alias(m, 1), alias(n, 1)
        if 1 <= lo <= L and 1 <= hi <= L and lo <= hi:
            chk("s1", "".join(cps[lo - 1:hi]))
        lo0, hi0 = alias(m, 0), alias(n, 0)
        if 0 <= lo0 < L and 0 <= hi0 < L and lo0 <= hi0:
            chk("s0", "".join(cps[lo0:hi0 + 1]))
            chk("sb", "".join(cps[lo0:hi0 + 1]))
        chk("tr", "".join(cps[:w]))
        P = len(list(pad))
        k = (w - L) // P if L < w else 0
        chk("lp", pad * k + s)
        chk("rp", s + pad * k)
        chk("fmt", "%s:%s" % (s, m))
        i = s.find(lit)
        chk("idx", len(s[:i]) + 1 if i >= 0 else -1)
        chk("ct", "true" if i >= 0 else "false")
        chk("spj", s + "," + lit)
        chk("js", s)
        if all(ord(c) < 256 for c in s):
            chk("l1", s)


def sub_rows(ctx):
    strat = st.fixed_dictionaries({"rows": st.lists(ROWS, min_size=10, max_size=30)})
    ctx.hyp(strat, lambda c: body_rows(ctx, c), ctx.n(900, 8000))


# ---- printf

FMTS = st.builds(lambda flags, width, prec, verb, ell: "%" + "".join(sorted(set(flags))) + (str(width) if width else "") + ("." + str(prec) if prec is not None and verb in "feg" else "") + (ell if verb in "dxfeg" else "") + verb,
                 st.lists(st.sampled_from(["-", "+", "0", " "]), max_size=2), st.sampled_from([0, 0, 1, 5, 8, 12]), st.sampled_from([None, 0, 1, 3, 6]), st.sampled_from(["d", "x", "f", "e", "g", "d", "f"]),
                 st.sampled_from(["", "", "l", "ll"]))
FMTS = FMTS.filter(lambda f: not (f[-1] in "feg" and "ll" in f))
NUMS = st.one_of(st.integers(-10 ** 6, 10 ** 6), st.integers(0, 2 ** 40), st.floats(-1e6, 1e6).map(lambda x: round(x, 4)), st.sampled_from([0, 1, -1, 17, 3.7, -3.7, 0.5, 1e10, 255, 1234567]))


def c_format(fmt, v):
    f = fmt.replace("ll", "").replace("l", "")
    verb = f[-1]
    if verb == "g" and "." not in f:
        return None  # Go's %g without precision prints the shortest representation, C prints 6 significant digits: docs defer to Go
    if "0" in f[1:-1] and "-" in f:
        f = f.replace("0", "", 1) if re.match(r"%[-+ ]*0", f) else f
    if verb in "dx":
        iv = int(v)
        if verb == "x" and iv < 0:
            return None  # underdetermined: two's complement vs sign-magnitude
        return f % iv
    return f % float(v)


def body_printf(ctx, case):
    rows = case["rows"]
    prog = '$o = fmtnum($v, $f); $q = fmtifnum($v, $f); $h = is_int($v) ? hexfmt($v) : "x"'
    res = ctx.mlr(["--ijson", "--otsv", "put", prog], stdin=json.dumps(rows, sort_keys=True).encode(), timeout=60)
    if res.rc != 0 or res.panicked:
        ctx.fail(case, "fmtnum batch failed rc=%s: %s" % (res.rc, res.err[:300]))
    outs = tsv_rows(res.out)
    for rc, o in zip(rows, outs):
        v, f = rc["v"], rc["f"]
        exp = c_format(f, v)
        ctx.case(("fmt", json.dumps(rc)), True, labels=("verb-" + f[-1],), sample=rc if len(ctx.samples) < 3 else None)
        if exp is None:
            ctx.label("underdetermined")
            continue
        if isinstance(v, int) and f[-1] in "feg" and abs(v) > 2 ** 53:
            continue
        if o.get("o") != exp or o.get("q") != exp:
            ctx.fail({"rows": [rc]}, "fmtnum(%r, %r): mlr gives %r (fmtifnum %r), C printf gives %r" % (v, f, o.get("o"), o.get("q"), exp))
        if isinstance(v, int) and v >= 0 and o.get("h") != hex(v):
            ctx.fail({"rows": [rc]}, "hexfmt(%r) = %r" % (v, o.get("h")))
    # non-numeric input: fmtnum -> error, fmtifnum -> unchanged
    r2 = ctx.mlr(["-n", "put", 'end{print fmtnum("abc", "%d"); print fmtifnum("abc", "%d"); print fmtifnum("", "%d") . "|"}'])
    if r2.out.decode().split("\n")[:3] != ["(error)", "abc", "|"]:
        ctx.fail({"rows": []}, "fmtnum/fmtifnum of non-numeric input: %r" % r2.out[:100])


def sub_printf(ctx):
    strat = st.fixed_dictionaries({"rows": st.lists(st.fixed_dictionaries({"v": NUMS, "f": FMTS}), min_size=10, max_size=30)})
    ctx.hyp(strat, lambda c: body_printf(ctx, c), ctx.n(450, 4000))


# ---- --ofmt and format-values

def body_ofmt(ctx, case):
    vals, ofmt = case["vals"], case["ofmt"]
    text = "".join("i=%d,x=%s,y=abc\n" % (i, v) for i, v in enumerate(vals))
    res = ctx.mlr(["--ofmt", ofmt, "put", "$z = $x * 1.0; $w = $i + 1"], stdin=text.encode())
    ctx.case(case, True, sample=case if len(ctx.samples) < 2 else None)
    if res.rc != 0:
        ctx.fail(case, "--ofmt run failed: %s" % res.err[:200])
    for v, ln in zip(vals, res.out.decode().splitlines()):
        d = dict(kv.split("=", 1) for kv in ln.split(","))
        isfloat = bool(re.match(r"-?[0-9]+\.[0-9]+$", v))
        exp_x = (ofmt.replace("lf", "f").replace("le", "e") % float(v)) if isfloat else v
        if d["x"] != exp_x:
            ctx.fail(case, "--ofmt %s: pass-through field x=%s printed as %r, expected %r" % (ofmt, v, d["x"], exp_x))
        if d["z"] != (ofmt.replace("lf", "f").replace("le", "e") % (float(v) * 1.0)):
            ctx.fail(case, "--ofmt %s: computed float z from %s printed as %r" % (ofmt, v, d["z"]))
        if d["y"] != "abc" or d["w"] != str(int(d["i"]) + 1):
            ctx.fail(case, "--ofmt touched a non-float: %r" % ln)


def sub_ofmt(ctx):
    strat = st.fixed_dictionaries({"vals": st.lists(st.one_of(st.integers(-999, 999).map(str), st.floats(-999, 999).map(lambda x: "%.5f" % x)), min_size=1, max_size=8),
                                   "ofmt": st.sampled_from(["%.3f", "%.6lf", "%.2e", "%10.4f", "%.0f", "%08.3lf"])})
    ctx.hyp(strat, lambda c: body_ofmt(ctx, c), ctx.n(240, 1500))


# ---- DSL string-literal escapes and regex-literal positions

ESC_CHARS = st.sampled_from(list("ab \u00e9\u4e2d\U0001F600") + ["\t", "\n", "\\", '"', "\x07", "\x08", "\x0c", "\r", "\x0b", "\x01", "\x7f"])


def render_literal(draw, s):
    out = []
    for ch in s:
        o = ord(ch)
        named = {"\t": "\\t", "\n": "\\n", "\\": "\\\\", '"': '\\"', "\x07": "\\a", "\x08": "\\b", "\x0c": "\\f", "\r": "\\r", "\x0b": "\\v"}
        choices = []
        if ch in named:
            choices.append(named[ch])
        elif o >= 0x20 and o != 0x7f:
            choices.append(ch)
        if o < 0x80:
            choices.append("\\x%02x" % o)
            choices.append("\\%03o" % o)
        if o < 0x10000:
            choices.append("\\u%04x" % o)
        choices.append("\\U%08x" % o)
        out.append(draw(st.sampled_from(choices)))
    return "".join(out)


@st.composite
def esc_case(draw):
    s = "".join(draw(st.lists(ESC_CHARS, min_size=0, max_size=6)))
    return {"s": s, "lit": render_literal(draw, s)}


def body_esc(ctx, case):
    s, lit = case["s"], case["lit"]
    res = ctx.mlr(["-n", "put", 'end{printn hex_encode("%s")}' % lit])
    ctx.case(case, "\\" in lit, sample=case if len(ctx.samples) < 3 else None)
    if res.rc != 0:
        ctx.fail(case, "literal %r rejected: %s" % (lit, res.err[:200]))
        return
    if res.out.decode() != s.encode("utf-8").hex():
        ctx.fail(case, "string literal \"%s\" denotes bytes %s, expected %s (%r)" % (lit, res.out.decode(), s.encode("utf-8").hex(), s))


def sub_esc(ctx):
    ctx.hyp(esc_case(), lambda c: body_esc(ctx, c), ctx.n(750, 5000))


# ---- capture state machine

@st.composite
def cap_case(draw):
    steps = draw(st.lists(st.sampled_from(["match-ab", "match-fail", "match-null", "sub", "match-3", "use", "match-opt", "udf"]), min_size=1, max_size=6))
    return {"steps": steps}


def body_cap(ctx, case):
    steps = case["steps"]
    prog = ['func g(s) { if (s =~ "(z)(y)") { return "\\1\\2" } else { return "none:\\1" } }']
    state = None  # None = never matched: "\1" literal; list = captures (0..9)
    exp = []
    subj = {"match-ab": ('"xaby"', "(a)(b)", ["ab", "a", "b"]), "match-3": ('"p-q-r"', "(p)-(q)-(r)", ["p-q-r", "p", "q", "r"]), "match-opt": ('"ac"', "(a)(b)?(c)", ["ac", "a", "", "c"])}
    for i, stp in enumerate(steps):
        if stp in subj:
            s, r, caps = subj[stp]
            prog.append('if (%s =~ "%s") {print "m%d"}' % (s, r, i))
            exp.append("m%d" % i)
            state = caps + [""] * (10 - len(caps))
        elif stp == "match-fail":
            prog.append('if ("zzz" =~ "(q)(r)") {print "no"}')
            state = [""] * 10
        elif stp == "match-null":
            prog.append('if ("zzz" =~ null) {print "no"}' if False else '"zzz" =~ null;' if False else 'x = "abc" =~ null;')
            # matching against null resets: documented; but what `x = "abc" =~ null` prints is not needed
            state = None
        elif stp == "sub":
            # sub's own captures are documented only for the state in which no =~ capture is active ("in-function context"); with
            # active captures the literal is interpolated first - that combination is not specified, so it is not generated
            if state is None:
                prog.append('print "s%d:" . sub("hello", "(l+)", "<\\1>");' % i)
                exp.append("s%d:he<ll>o" % i)
        elif stp == "udf":
            prog.append('print "u%d:" . g("qzyq") . ":" . g("nope");' % i)
            exp.append("u%d:zy:none:%s" % (i, ""))
        if stp == "use" or True:
            prog.append('print "c%d:\\1|\\2|\\3|\\0";' % i)
            if state is None:
                exp.append("c%d:\\1|\\2|\\3|\\0" % i)
            else:
                exp.append("c%d:%s|%s|%s|%s" % (i, state[1], state[2], state[3], state[0]))
    if "match-fail" in steps and steps.index("match-fail") < len(steps) and any(True for _ in [0]):
        pass
    # the failed-match rule: "If the regex does not match, the capture variables retain previous values"? -> documentation: set to empty. handled above
    res = ctx.mlr(["-n", "put", prog[0] + "\nend{" + "\n".join(prog[1:]) + "}"])
    ctx.case(case, len(steps) >= 2, sample=case if len(ctx.samples) < 3 else None)
    if res.rc != 0:
        ctx.fail(case, "capture program failed: %s\n%s" % (res.err[:300], "\n".join(prog)))
    got = res.out.decode().splitlines()
    # compare, but a UDF's own no-match interpolation ("none:\1") is its own frame: docs silent on literal vs empty -> compare prefix only
    norm = lambda l: l if not l.startswith("u") else l.split(":none:")[0]
    if [norm(x) for x in got] != [norm(x) for x in exp]:
        ctx.fail(case, "capture interpolation differs:\n  program:\n    %s\n  expected %r\n  got      %r" % ("\n    ".join(prog), exp, got))


def sub_cap(ctx):
    ctx.hyp(cap_case(), lambda c: body_cap(ctx, c), ctx.n(600, 3000))


# ---- long digests

def sub_digest_lengths(ctx):
    rows = [{"s": "a" * n} for n in (0, 1, 55, 56, 57, 63, 64, 65, 111, 112, 119, 120, 127, 128, 129, 1000, 4095, 4096, 4097, 65536, 100000)] + [{"s": "\u00e9" * 40000}]
    res = ctx.mlr(["--ijson", "--ojson", "put", "-q", 'print md5($s) . " " . sha1($s) . " " . sha256($s) . " " . sha512($s) . " " . strlen($s) . " " . crc32($s)'.replace(' . " " . crc32($s)', "")], stdin=json.dumps(rows).encode())
    if res.rc != 0:
        ctx.fail({"rows": []}, "digest run failed: %s" % res.err[:200])
    for r, ln in zip(rows, res.out.decode().splitlines()):
        b = r["s"].encode()
        exp = "%s %s %s %s %d" % (hashlib.md5(b).hexdigest(), hashlib.sha1(b).hexdigest(), hashlib.sha256(b).hexdigest(), hashlib.sha512(b).hexdigest(), len(r["s"]))
        ctx.case(("dig", len(b)), True)
        if ln != exp:
            if not ctx.guard(ctx.fail, {"rows": [{"s_len": len(b)}]}, "digests of a %d-byte input differ: %r vs %r" % (len(b), ln[:80], exp[:80])):
                return


SUBCHECKS = [
    Sub("string_regex_hash_rows", sub_rows, body_rows, shards={"quick": 8, "thorough": 16}, cost=3, rule="~45 function applications per generated row vs Python str/re/hashlib/base64"),
    Sub("printf", sub_printf, body_printf, shards={"quick": 3, "thorough": 6}, rule="fmtnum/fmtifnum/hexfmt with generated %[flags][width][.prec][l|ll]{d,x,f,e,g} vs Python % formatting; negative ints under %x underdetermined"),
    Sub("ofmt", sub_ofmt, body_ofmt, shards={"quick": 1, "thorough": 2}, rule="--ofmt re-renders exactly the float-typed fields (pass-through and computed)"),
    Sub("literal_escapes", sub_esc, body_esc, shards={"quick": 2, "thorough": 4}, rule="a string rendered as a DSL literal with a random mix of documented escape spellings denotes the same bytes"),
    Sub("regex_captures", sub_cap, body_cap, shards={"quick": 2, "thorough": 4}, rule="state machine over =~ success/failure/null, sub, UDF frames: \\\\0-\\\\9 interpolation follows the four documented states"),
    Sub("digest_lengths", sub_digest_lengths, None, shards={"quick": 1, "thorough": 1}, exhaustive=True, rule="md5/sha1/sha256/sha512 at block-boundary lengths up to 100000 bytes"),
]



def _k_astral(sub, case, message, detail):
    lit = case.get("lit", "")
    return sub == "literal_escapes" and ("lexer" in message) and ("\\U" in lit or "\\a" in lit or "\\v" in lit or any(ord(c) >= 0x10000 for c in lit))


def _p_astral(mlr):
    r = mlr(["-n", "put", 'end{print "\\U00010877"}'])
    return r.rc != 0


KNOWN = {
    "lexer-rejects-astral-in-string-literal": {"match": _k_astral, "probe": _p_astral},
}
