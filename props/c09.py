"""C09 - sort and the sorting functions return a correctly ordered permutation."""
import functools
import json
import re

from hypothesis import strategies as st

from vlib.core import Sub
from vlib import model_num as mn

LEVEL = "exploration"
RULE = ("Hypothesis: 0-40 records with sort-key columns mixing ints, floats, numerically-equal spellings, hex, empties, mixed-case strings, "
        "missing keys, >12 groups; 1-3 keys with flags -f -r -c -cr -nf -nr -n -t -tr; oracle = validity predicate (permutation of byte-identical "
        "records, key-less last in input order, adjacent records non-decreasing under the documented collation, identical key texts keep input "
        "order); same predicate for DSL sort (flags / comparator functions), top, sort-within-records; non-trivial = >=2 keyed records with "
        "different key texts and a tie, mixed types, a missing key or >12 groups")
ASSUMPTIONS = ["numeric keys are restricted to values exactly representable as doubles", "natural sort only on letters+digits without leading zeros"]

VALS = ["1", "1.0", "0x1", "+1", "1e0", "2", "-3", "10", "9", "abc", "ABC", "Abd", "", "true", "a10", "a9", "0.5", "-0.5", "0x10", "1.5e1", "zz",
        "-3.5", "-0.25", "0", "-0", "-1", "-1.25", "100", "1e3", "a_b", "ab", "aB", "a[", "Z", "_", "user_id", "userName", "false", "-", "007", "1_000", "é", "É", "z"]
NAT = ["a1", "a2", "a10", "a20", "a100", "b1", "b3", "b12", "a", "b", "c7", "c70", "c8"]


def infer(s):
    acc = mn.infer(s, "")
    t, v = acc[0]
    if t in ("int", "float"):
        return ("num", float(v))
    if t == "empty":
        return ("void", s)
    return ("str", s)


def natkey(s):
    m = re.match(r"([a-z]*)([0-9]*)$", s)
    return (m.group(1), int(m.group(2)) if m.group(2) else -1)


def cmpkey(flag, s):
    f = flag.lstrip("-")
    if f in ("f", "r"):
        return s.encode("utf-8")
    if f in ("c", "cr"):
        return s.lower().encode("utf-8")
    if f in ("t", "tr"):
        return natkey(s)
    t, v = infer(s)
    if t == "num":
        return (0, v, b"")
    return (2, 0, s.encode("utf-8"))


def descending(flag):
    return flag.lstrip("-") in ("r", "cr", "nr", "tr")


@st.composite
def verb_case(draw):
    natural = draw(st.integers(0, 5)) == 0
    pool = NAT if natural else VALS
    many = draw(st.integers(0, 2)) == 0
    n = draw(st.integers(0, 40 if many else 12))
    fields = ["k", "j", "m"]
    nkeys = draw(st.integers(1, 3))
    rows = []
    for i in range(n):
        r = [["id", str(i)]]
        for f in fields[:nkeys]:
            if draw(st.integers(0, 9)) > 0:
                if many and f == "k":
                    r.append([f, draw(st.sampled_from(pool + [str(x) for x in range(20, 40)]))])
                else:
                    r.append([f, draw(st.sampled_from(pool))])
        r.append(["pad", draw(st.sampled_from(["0x0F", "1.50", "x y"]))])
        rows.append(r)
    flagpool = ["-t", "-tr"] if natural else ["-f", "-r", "-nf", "-nr", "-c", "-cr", "-n"]
    flags = [[draw(st.sampled_from(flagpool)), f] for f in fields[:nkeys]]
    return {"rows": rows, "flags": flags, "b": draw(st.integers(0, 6)) == 0, "rpb": draw(st.sampled_from([None, 1, 3]))}


def body_verb(ctx, case):
    rows, flags = case["rows"], case["flags"]
    text = "".join(",".join("%s=%s" % (k, v) for k, v in r) + "\n" for r in rows)
    args = (["--records-per-batch", str(case["rpb"])] if case.get("rpb") else []) + ["--ojsonl", "--jvquoteall", "sort"] + (["-b"] if case.get("b") else [])
    for f, name in flags:
        args += [f, name]
    res = ctx.mlr(args, stdin=text.encode("utf-8"))
    if res.rc != 0:
        ctx.fail(case, "sort failed rc=%s: %s" % (res.rc, res.err[:300].decode("utf-8", "replace")))
    got = [json.loads(l, object_pairs_hook=lambda ps: [list(p) for p in ps]) for l in res.out.decode("utf-8").splitlines()]
    # -S: all strings, so records compare textually with the input
    byid = {r[0][1]: r for r in rows}
    ids = [dict(g)["id"] for g in got if "id" in dict(g)]
    if sorted(ids, key=int) != [r[0][1] for r in rows] or len(got) != len(rows):
        ctx.fail(case, "not a permutation: ids out %r" % ids)
    names = [n for _, n in flags]
    for g in got:
        src = byid[dict(g)["id"]]
        if case.get("b"):
            exp = [[n, dict(src)[n]] for n in names if n in dict(src)] + [p for p in src if p[0] not in names]
        else:
            exp = src
        if g != exp:
            ctx.fail(case, "record changed: in %r out %r" % (src, g))
    keyed = [r for r in rows if all(n in dict(r) for n in names)]
    unkeyed = [r[0][1] for r in rows if not all(n in dict(r) for n in names)]
    if ids[len(keyed):] != unkeyed:
        ctx.fail(case, "records lacking a key must follow all others in input order: got tail %r expected %r" % (ids[len(keyed):], unkeyed))
    seq = [dict(byid[i]) for i in ids[:len(keyed)]]

    def cmp(a, b):
        for f, name in flags:
            ka, kb = cmpkey(f, a[name]), cmpkey(f, b[name])
            d = descending(f)
            if ka < kb:
                return 1 if d else -1
            if ka > kb:
                return -1 if d else 1
        return 0
    for a, b in zip(seq, seq[1:]):
        if cmp(a, b) > 0:
            ctx.fail(case, "out of order under %r: %r before %r" % (flags, [a[n] for n in names], [b[n] for n in names]))
        if all(a[n] == b[n] for n in names) and int(a["id"]) > int(b["id"]):
            ctx.fail(case, "records with identical key texts did not keep input order: id %s before id %s" % (a["id"], b["id"]))
    texts = {tuple(r[n] for n in names) for r in map(dict, keyed)}
    nt = len(keyed) >= 2 and len(texts) >= 2 and (len(texts) < len(keyed) or len(texts) > 12 or unkeyed or any(infer(t[0])[0] != "num" for t in texts))
    ctx.case(case, bool(nt), labels=("groups>12" if len(texts) > 12 else "groups<=12", flags[0][0]), sample={"args": args, "n": len(rows)} if nt else None)


# ---- DSL sort ----

DVALS = [1, 2, -3, 10, 0.5, -0.5, -3.5, 1.0, 100, "abc", "ABC", "Abd", "a_b", "aB", "", "zz", "a10", "a9", True, False, -1, -1.25, 0, "Z", "_", "b"]


def dsl_lit(v):
    if isinstance(v, bool):
        return "true" if v else "false"
    if isinstance(v, str):
        return json.dumps(v)
    return repr(v)


def dkey(flagstr, v):
    """Collation key for DSL sort flags: default numeric-then-lexical ('numbers before booleans before voids before strings')."""
    if "c" in flagstr:
        return str(v).lower().encode() if not isinstance(v, bool) else str(v).lower().encode()
    if "f" in flagstr:
        return dsl_text(v).encode()
    if "t" in flagstr:
        return natkey(v)
    if isinstance(v, bool):
        return (1, int(v), b"")
    if isinstance(v, (int, float)):
        return (0, float(v), b"")
    if v == "":
        return (2, 0, b"")
    return (3, 0, v.encode())


def dsl_text(v):
    if isinstance(v, bool):
        return "true" if v else "false"
    if isinstance(v, float):
        return mn.fmtf(v)
    return str(v)


@st.composite
def dsl_case(draw):
    mode = draw(st.sampled_from(["flags", "flags", "func", "mapkey", "mapval"]))
    if mode == "flags":
        fl = draw(st.sampled_from(["", "f", "c", "r", "fr", "cr", "t", "tr", "n", "nr"]))
        pool = NAT if "t" in fl else ([v for v in DVALS if isinstance(v, str)] if ("c" in fl or "f" in fl) else DVALS)
        arr = draw(st.lists(st.sampled_from(pool), min_size=0, max_size=14))
        return {"mode": mode, "flags": fl, "arr": arr}
    if mode == "func":
        arr = draw(st.lists(st.integers(-20, 20), min_size=0, max_size=14))
        return {"mode": mode, "cmp": draw(st.sampled_from(["asc", "desc", "abs", "mod3"])), "arr": arr}
    keys = draw(st.lists(st.sampled_from(["a", "B", "c", "10", "9", "aa", "A", "_", "z"]), min_size=0, max_size=8, unique=True))
    vals = [draw(st.integers(-9, 9)) for _ in keys]
    return {"mode": mode, "keys": keys, "vals": vals, "flags": draw(st.sampled_from(["", "r", "f", "c"])) if mode == "mapkey" else draw(st.sampled_from(["v", "vr", "vnr"]))}


CMPS = {"asc": ("func(a,b) {return a <=> b}", lambda a, b: (a > b) - (a < b)),
        "desc": ("func(a,b) {return b <=> a}", lambda a, b: (b > a) - (b < a)),
        "abs": ("func(a,b) {return abs(a) <=> abs(b)}", lambda a, b: (abs(a) > abs(b)) - (abs(a) < abs(b))),
        "mod3": ("func(a,b) {return (a % 3) <=> (b % 3)}", lambda a, b: ((a % 3) > (b % 3)) - ((a % 3) < (b % 3)))}


def body_dsl(ctx, case):
    mode = case["mode"]
    if mode in ("flags", "func"):
        arr = case["arr"]
        lit = "[" + ", ".join(dsl_lit(v) for v in arr) + "]"
        if mode == "flags":
            second = ', "%s"' % case["flags"] if case["flags"] else ""
        else:
            second = ", " + CMPS[case["cmp"]][0]
        prog = "end{print json_stringify(sort(%s%s)); print json_stringify(sort_collection(%s))}" % (lit, second, lit)
        res = ctx.mlr(["-n", "put", prog])
        if res.rc != 0:
            ctx.fail(case, "DSL sort failed: %s" % res.err[:300].decode("utf-8", "replace"))
        lines = res.out.decode("utf-8").splitlines()
        got = json.loads(lines[0])
        if mode == "flags" and not case["flags"]:
            # sort_collection (the helper behind the percentile functions) collates like the default sort
            sc = json.loads(lines[1])
            ksc = [dkey("", v) for v in sc]
            if sorted(map(repr, sc)) != sorted(map(repr, got)) or any(a > b for a, b in zip(ksc, ksc[1:])):
                ctx.fail(case, "sort_collection(%r) = %r is not the input ordered like sort's default order %r" % (arr, sc, got))
            ctx.label("sort_collection")
        canon = lambda v: (type(v).__name__ if isinstance(v, (bool, str)) else "num", v)
        if sorted(map(repr, map(canon, got))) != sorted(map(repr, map(canon, arr))):
            ctx.fail(case, "DSL sort is not a permutation: %r -> %r" % (arr, got))
        if mode == "flags":
            fl = case["flags"]
            ks = [dkey(fl, v) for v in got]
            for a, b, va, vb in zip(ks, ks[1:], got, got[1:]):
                bad = a < b if "r" in fl else a > b
                if bad:
                    ctx.fail(case, "DSL sort(%r, %r) out of order: %r before %r in %r" % (arr, fl, va, vb, got))
        else:
            c = CMPS[case["cmp"]][1]
            for a, b in zip(got, got[1:]):
                if c(a, b) > 0:
                    ctx.fail(case, "DSL sort with comparator %s out of order: %r before %r in %r" % (case["cmp"], a, b, got))
        ctx.case(case, len(set(map(repr, arr))) >= 3, labels=("dsl-" + mode,), sample=case if len(arr) > 3 else None)
    else:
        keys, vals, fl = case["keys"], case["vals"], case["flags"]
        lit = "{" + ", ".join("%s: %d" % (json.dumps(k), v) for k, v in zip(keys, vals)) + "}"
        second = ', "%s"' % fl if fl else ""
        res = ctx.mlr(["-n", "put", "end{print json_stringify(sort(%s%s))}" % (lit, second)])
        if res.rc != 0:
            ctx.fail(case, "DSL map sort failed: %s" % res.err[:300].decode("utf-8", "replace"))
        got = json.loads(res.out.decode("utf-8"), object_pairs_hook=lambda ps: [list(p) for p in ps])
        if sorted(map(tuple, got)) != sorted(zip(keys, vals)):
            ctx.fail(case, "DSL map sort is not a permutation: %r -> %r" % (list(zip(keys, vals)), got))
        if mode == "mapval":
            seq = [v for _, v in got]
            for a, b in zip(seq, seq[1:]):
                if (a < b) if "r" in fl else (a > b):
                    ctx.fail(case, "map sort by value %r out of order: %r" % (fl, got))
        else:
            def kk(k):
                if "c" in fl:
                    return k.lower().encode()
                if "f" in fl:
                    return k.encode()
                t, v = infer(k)
                return (0, v, b"") if t == "num" else (2, 0, k.encode())
            seq = [kk(k) for k, _ in got]
            for a, b in zip(seq, seq[1:]):
                if (a < b) if "r" in fl else (a > b):
                    ctx.fail(case, "map sort by key %r out of order: %r" % (fl, got))
        ctx.case(case, len(keys) >= 3, labels=("dsl-" + mode,))


# ---- top, sort-within-records ----

@st.composite
def top_case(draw):
    n = draw(st.integers(0, 20))
    rows = [[["id", str(i)], ["g", draw(st.sampled_from(["a", "b", "c"]))], ["x", draw(st.sampled_from(["1", "2", "-3", "10", "0.5", "-0.5", "-3.5", "7", "7.0", "0x10", "1e1", "-1", "-1.25", "0"]))]] for i in range(n)]
    return {"rows": rows, "k": draw(st.integers(1, 4)), "min": draw(st.booleans()), "g": draw(st.booleans()), "a": draw(st.booleans())}


def body_top(ctx, case):
    rows = case["rows"]
    text = "".join(",".join("%s=%s" % (k, v) for k, v in r) + "\n" for r in rows)
    args = ["--ojsonl", "top", "-n", str(case["k"]), "-f", "x"] + (["-g", "g"] if case["g"] else []) + (["--min"] if case["min"] else []) + (["-a"] if case["a"] else [])
    res = ctx.mlr(args, stdin=text.encode())
    if res.rc != 0:
        ctx.fail(case, "top failed: %s" % res.err[:300])
    got = [json.loads(l) for l in res.out.decode().splitlines()]
    groups = {}
    order = []
    for r in rows:
        d = dict(r)
        key = d["g"] if case["g"] else ""
        if key not in groups:
            groups[key] = []
            order.append(key)
        groups[key].append(d)
    exp_vals = []
    for key in order:
        vs = [infer(d["x"])[1] for d in groups[key]]
        vs = sorted(vs, reverse=not case["min"])[:case["k"]]
        exp_vals.append((key, vs))
    # compare multiset of values per group
    gotg = {}
    for g in got:
        key = str(g.get("g", "")) if case["g"] else ""
        val = g.get("x") if case["a"] else g.get("x_top")
        if val in ("", None):
            continue
        gotg.setdefault(key, []).append(float(val))
    for key, vs in exp_vals:
        if gotg.get(key, []) != vs:
            ctx.fail(case, "top %r: group %r expected values %r got %r" % (args, key, vs, gotg.get(key)))
    if case["a"]:
        srcs = [{k: v for k, v in r} for r in rows]
        for g in got:
            if not any(all(str(g.get(k)) == v or _numeq(g.get(k), v) for k, v in s.items()) for s in srcs):
                ctx.fail(case, "top -a emitted a record that is not an input record: %r" % g)
    ctx.case(case, len(rows) >= 3, labels=("top",))


def _numeq(a, b):
    try:
        return float(a) == infer(b)[1]
    except (TypeError, ValueError):
        return False


@st.composite
def swr_case(draw):
    keys = draw(st.lists(st.sampled_from(["a", "B", "c", "10", "9", "aa", "A", "_", "z", "b", "Z", "a1", "é"]), min_size=0, max_size=13, unique=True))
    return {"keys": keys, "r": draw(st.booleans())}


def body_swr(ctx, case):
    keys = case["keys"]
    if not keys:
        return
    text = ",".join("%s=%d" % (k, i) for i, k in enumerate(keys)) + "\n"
    res = ctx.mlr(["--ojsonl", "sort-within-records"] + (["-r"] if case["r"] else []), stdin=text.encode("utf-8"))
    if res.rc != 0:
        ctx.fail(case, "sort-within-records failed: %s" % res.err[:300])
    got = json.loads(res.out.decode("utf-8"), object_pairs_hook=lambda ps: [list(p) for p in ps])
    exp = sorted([[k, i] for i, k in enumerate(keys)], key=lambda p: p[0].encode("utf-8"))
    if got != exp:
        ctx.fail(case, "sort-within-records%s: expected %r got %r" % (" -r" if case["r"] else "", exp, got))
    ctx.case(case, len(keys) >= 3, labels=("swr",))


def sub_verb(ctx):
    ctx.hyp(verb_case(), lambda c: body_verb(ctx, c), ctx.n(2500, 24000))


def sub_dsl(ctx):
    ctx.hyp(dsl_case(), lambda c: body_dsl(ctx, c), ctx.n(1500, 12000))


def sub_top(ctx):
    ctx.hyp(top_case(), lambda c: body_top(ctx, c), ctx.n(700, 6000))


def sub_swr(ctx):
    ctx.hyp(swr_case(), lambda c: body_swr(ctx, c), ctx.n(450, 3000))


SUBCHECKS = [
    Sub("sort_verb", sub_verb, body_verb, shards={"quick": 6, "thorough": 16}, cost=3, rule="sort verb validity predicate; see RULE"),
    Sub("dsl_sort", sub_dsl, body_dsl, shards={"quick": 4, "thorough": 8}, cost=2,
        rule="DSL sort on arrays (flag strings, comparator functions) and maps (by key / by value): permutation ordered under the documented collation / the given comparator"),
    Sub("top", sub_top, body_top, shards={"quick": 2, "thorough": 4}, rule="top -n k [-g] [--min] [-a]: the k extreme values per group by numeric value"),
    Sub("sort_within_records", sub_swr, body_swr, shards={"quick": 1, "thorough": 2}, rule="field names in byte-lexical ascending order, values attached"),
]

KNOWN = {}
