"""C11 - record-selecting verbs only select: nothing altered or invented, counts add up."""
import collections
import json

from hypothesis import strategies as st

from vlib.core import Sub

LEVEL = "exploration"
RULE = ("Hypothesis: streams of 0-14 heterogeneous records (optional group field, spellings that must not be re-rendered, >=12-field records) x 30 "
        "selecting-verb variants with counts k in {0,1,2,3,N-1,N,N+1,20}; universal oracle: every output record is byte-identical to an input "
        "record (traced by id); per-verb oracle: exact expected sub-sequence / permutation / partition law; non-trivial = N>=3 and the verb neither "
        "passes nor drops everything")
ASSUMPTIONS = ["slicing models transcribe each verb's usage text"]

VERBS = ["head", "head-neg", "head-g", "tail", "tail-plus", "tail-g", "tac", "tactac", "group-by", "group-by2", "filter", "filter-x-partition", "decimate", "decimate-b",
         "decimate-g", "uniq-a", "cat-n-g", "cat-N", "having-at-least", "having-which-are", "having-at-most", "having-all-matching", "having-any-matching", "having-none-matching", "grep", "grep-v", "grep-i", "grep-a", "nothing",
         "shuffle", "bootstrap", "sample", "group-like", "skip-trivial", "head-tail-law", "head-then-head", "uniq-a-c-sum", "sec-chain"]

FILTERS = ["$v > %d", "$v <= %d", '$g == "a" || $v < %d', "is_present($g) && $v != %d", "$nosuch > %d", "$v > %d && true", "is_absent($v) || !($v < %d)",
           '$g =~ "^[ab]$" || $v == %d', "is_absent($g) || $v >= %d", "$x . \"\" == \"0x0F\" || $v > %d", "NR %% 2 == 0 || $v > %d"]


@st.composite
def case_strategy(draw):
    n = draw(st.integers(0, 14))
    wide = draw(st.integers(0, 4)) == 0
    rows = []
    for i in range(n):
        r = [["id", str(i)]]
        if draw(st.integers(0, 6)) > 0:
            r.append(["g", draw(st.sampled_from(["a", "b", "c"]))])
        r.append(["v", str(draw(st.integers(0, 5)))])
        r.append(["x", draw(st.sampled_from(["0x0F", "1.50", "+7", "007", "1e3", "", "abc", " s "]))])
        if wide:
            for j in range(10):
                r.append(["w%d" % j, draw(st.sampled_from(["1", "0xff", "q"]))])
        if draw(st.integers(0, 8)) == 0:
            r = [["id", str(i)], ["e", ""]]
        rows.append(r)
    k = draw(st.sampled_from([0, 1, 2, 3, max(n - 1, 0), n, n + 1, 20]))
    verb = draw(st.sampled_from(VERBS))
    return {"rows": rows, "k": k, "verb": verb, "f": draw(st.integers(0, len(FILTERS) - 1)), "rpb": draw(st.sampled_from([None, 1, 2, 3]))}


def groups(rows, field="g"):
    g = collections.OrderedDict()
    for r in rows:
        d = dict(r)
        if field in d:
            g.setdefault(d[field], []).append(r)
    return g


def run(ctx, case, args, rows):
    text = "".join(",".join("%s=%s" % (k, v) for k, v in r) + "\n" for r in rows)
    pre = (["--records-per-batch", str(case["rpb"])] if case.get("rpb") else []) + ["--seed", "7", "--ojsonl", "--jvquoteall"]
    res = ctx.mlr(pre + args, stdin=text.encode())
    if res.rc != 0 or res.panicked or res.timed_out:
        ctx.fail(case, "mlr %r failed rc=%s timed_out=%s: %s" % (args, res.rc, res.timed_out, res.err[:300].decode("utf-8", "replace")))
    return [json.loads(l, object_pairs_hook=lambda ps: [list(p) for p in ps]) for l in res.out.decode("utf-8").splitlines()]


def body(ctx, case):
    rows, k, verb = case["rows"], case["k"], case["verb"]
    n = len(rows)
    exp = None
    pred = None
    J = lambda r: json.dumps(r)
    C = lambda rs: collections.Counter(J(r) for r in rs)
    strip_extra = None
    if verb == "head":
        args = ["head", "-n", str(k)]; exp = rows[:k]
    elif verb == "head-neg":
        if k <= 0:
            return
        args = ["head", "-n", str(-k)]; exp = rows[:max(0, n - k)]
    elif verb == "head-g":
        args = ["head", "-n", str(k), "-g", "g"]
        keep = {id(r) for rs in groups(rows).values() for r in rs[:k]}
        exp = [r for r in rows if id(r) in keep]
    elif verb == "tail":
        args = ["tail", "-n", str(k)]; exp = [] if k == 0 else (rows[n - k:] if k < n else rows)
    elif verb == "tail-plus":
        if k < 1:
            return
        args = ["tail", "-n", "+" + str(k)]; exp = rows[k - 1:]
    elif verb == "tail-g":
        args = ["tail", "-n", str(k), "-g", "g"]; exp = [r for rs in groups(rows).values() for r in (rs[-k:] if k > 0 else [])]
    elif verb == "tac":
        args = ["tac"]; exp = rows[::-1]
    elif verb == "tactac":
        args = ["tac", "then", "tac"]; exp = rows
    elif verb == "group-by":
        args = ["group-by", "g"]; exp = [r for rs in groups(rows).values() for r in rs]
    elif verb == "group-by2":
        args = ["group-by", "g,v"]
        gg = collections.OrderedDict()
        for r in rows:
            d = dict(r)
            if "g" in d and "v" in d:
                gg.setdefault((d["g"], d["v"]), []).append(r)
        exp = [r for rs in gg.values() for r in rs]
    elif verb == "filter":
        args = ["filter", "$v > %d" % k]; exp = [r for r in rows if "v" in dict(r) and int(dict(r)["v"]) > k]
    elif verb == "filter-x-partition":
        expr = FILTERS[case["f"]] % k
        a = run(ctx, case, ["filter", expr], rows)
        b = run(ctx, case, ["filter", "-x", expr], rows)
        ids_a = [dict(r)["id"] for r in a]
        ids_b = [dict(r)["id"] for r in b]
        allids = [dict(r)["id"] for r in rows]
        if sorted(ids_a + ids_b, key=int) != allids:
            ctx.fail(case, "filter %r and filter -x do not partition the input: pass %r, -x pass %r, input %r" % (expr, ids_a, ids_b, allids))
        if ids_a != sorted(ids_a, key=int) or ids_b != sorted(ids_b, key=int):
            ctx.fail(case, "filter changed record order")
        for r in a + b:
            if r != rows[int(dict(r)["id"])]:
                ctx.fail(case, "filter altered a record: %r" % r)
        ctx.case(case, n >= 3 and 0 < len(a) < n, labels=(verb,))
        return
    elif verb == "decimate":
        kk = max(1, k); args = ["decimate", "-n", str(kk)]; exp = [r for i, r in enumerate(rows) if (i + 1) % kk == 0]
    elif verb == "decimate-b":
        kk = max(1, k); args = ["decimate", "-b", "-n", str(kk)]; pred = "decimate-b"
    elif verb == "decimate-g":
        kk = max(1, k); args = ["decimate", "-n", str(kk), "-g", "g"]
        exp = []
        cnt = collections.Counter()
        for r in rows:
            d = dict(r)
            if "g" in d:
                cnt[d["g"]] += 1
                if cnt[d["g"]] % kk == 0:
                    exp.append(r)
    elif verb == "uniq-a":
        args = ["cut", "-x", "-f", "id", "then", "uniq", "-a"]
        seen = []
        for r in rows:
            t = [p for p in r if p[0] != "id"]
            if t not in seen:
                seen.append(t)
        exp = seen
        strip_extra = True
    elif verb == "uniq-a-c-sum":
        got = run(ctx, case, ["cut", "-x", "-f", "id", "then", "uniq", "-a", "-c"], rows)
        tot = sum(int(dict(g)["count"]) for g in got)
        if tot != n:
            ctx.fail(case, "uniq -a -c counts sum to %d, input has %d records" % (tot, n))
        ctx.case(case, n >= 3, labels=(verb,))
        return
    elif verb == "cat-n-g":
        args = ["having-fields", "--at-least", "g", "then", "cat", "-n", "-g", "g"]
        cnt = collections.Counter(); exp = []
        for r in rows:
            d = dict(r)
            if "g" in d:
                cnt[d["g"]] += 1
                exp.append([["n", str(cnt[d["g"]])]] + r)
    elif verb == "cat-N":
        args = ["cat", "-N", "idx"]; exp = [[["idx", str(i + 1)]] + r for i, r in enumerate(rows)]
    elif verb == "having-at-least":
        args = ["having-fields", "--at-least", "g"]; exp = [r for r in rows if "g" in dict(r)]
    elif verb == "having-which-are":
        args = ["having-fields", "--which-are", "id,g,v,x"]; exp = [r for r in rows if sorted(p[0] for p in r) == ["g", "id", "v", "x"]]
    elif verb == "having-at-most":
        args = ["having-fields", "--at-most", "id,v,x,e"]; exp = [r for r in rows if all(p[0] in ("id", "v", "x", "e") for p in r)]
    elif verb == "having-all-matching":
        args = ["having-fields", "--all-matching", "^[a-z]+$"]; exp = [r for r in rows if all(p[0].isalpha() for p in r)]
    elif verb == "having-any-matching":
        args = ["having-fields", "--any-matching", "^w[0-9]$"]; exp = [r for r in rows if any(p[0].startswith("w") for p in r)]
    elif verb == "having-none-matching":
        args = ["having-fields", "--none-matching", '"^G$"i']; exp = [r for r in rows if "g" not in dict(r)]
    elif verb == "grep":
        args = ["grep", "g=b"]; exp = [r for r in rows if dict(r).get("g") == "b"]
    elif verb == "grep-v":
        args = ["grep", "-v", "g=b"]; exp = [r for r in rows if dict(r).get("g") != "b"]
    elif verb == "grep-i":
        args = ["grep", "-i", "G=B,V"]; exp = [r for r in rows if dict(r).get("g") == "b"]
    elif verb == "grep-a":
        args = ["grep", "-a", "^[0-9]+,b,[0-5]"]; exp = [r for r in rows if dict(r).get("g") == "b"]
    elif verb == "nothing":
        args = ["nothing"]; exp = []
    elif verb == "shuffle":
        args = ["shuffle"]; pred = "perm"
    elif verb == "bootstrap":
        args = ["bootstrap"]; pred = "subset-n"
    elif verb == "sample":
        args = ["sample", "-k", str(k), "-g", "g"]; pred = "sample"
    elif verb == "group-like":
        args = ["group-like"]
        gl = collections.OrderedDict()
        for r in rows:
            gl.setdefault(tuple(p[0] for p in r), []).append(r)
        exp = [r for rs in gl.values() for r in rs]
    elif verb == "skip-trivial":
        args = ["skip-trivial-records"]; exp = [r for r in rows if any(v != "" for _, v in r)]
    elif verb == "head-tail-law":
        a = run(ctx, case, ["head", "-n", str(k)], rows)
        b = run(ctx, case, ["tail", "-n", "+" + str(k + 1)], rows)
        if a + b != rows:
            ctx.fail(case, "head -n %d ++ tail -n +%d != input: %d + %d records of %d" % (k, k + 1, len(a), len(b), n))
        ctx.case(case, n >= 3 and 0 < k < n, labels=(verb,))
        return
    elif verb == "head-then-head":
        k2 = max(1, k // 2)
        args = ["head", "-n", str(k), "then", "head", "-n", str(k2)]; exp = rows[:min(k, k2)]
    elif verb == "sec-chain":
        args = ["head", "-n", str(max(k, 1)), "-g", "g", "then", "tac", "then", "tail", "-n", "2"]
        keep = {id(r) for rs in groups(rows).values() for r in rs[:max(k, 1)]}
        e1 = [r for r in rows if id(r) in keep][::-1]
        exp = e1[-2:]
    else:
        raise ValueError(verb)
    got = run(ctx, case, args, rows)
    byid = {r[0][1]: r for r in rows}
    if not strip_extra and verb not in ("cat-n-g", "cat-N"):
        for g in got:
            gid = dict(g).get("id")
            if gid not in byid or g != byid[gid]:
                ctx.fail(case, "%r emitted a record that is not an unchanged input record: %r" % (args, g))
    if exp is not None:
        if [J(g) for g in got] != [J(e) for e in exp]:
            ctx.fail(case, "%r: expected ids %r got %r (first differing records: %r vs %r)" % (
                args, [dict(e).get("id") for e in exp], [dict(g).get("id") for g in got],
                next((e for e, g in zip(exp, got) if e != g), None), next((g for e, g in zip(exp, got) if e != g), None)))
        nt = n >= 3 and 0 < len(exp) and (len(exp) < n or verb in ("tac", "group-by", "group-like", "group-by2"))
    elif pred == "perm":
        if C(got) != C(rows):
            ctx.fail(case, "shuffle is not a permutation")
        got2 = run(ctx, case, args, rows)
        if got2 != got:
            ctx.fail(case, "shuffle with the same --seed is not reproducible")
        nt = n >= 3
    elif pred == "subset-n":
        if len(got) != n or any(J(g) not in C(rows) for g in got):
            ctx.fail(case, "bootstrap must emit N records drawn from the input: got %d of %d" % (len(got), n))
        if run(ctx, case, args, rows) != got:
            ctx.fail(case, "bootstrap with the same --seed is not reproducible")
        nt = n >= 3
    elif pred == "sample":
        gg = groups(rows)
        cg = collections.Counter(dict(g)["g"] for g in got)
        if any(J(g) not in C(rows) for g in got) or (C(got) - C(rows)) or any(cg[x] != min(k, len(rs)) for x, rs in gg.items()):
            ctx.fail(case, "sample -k %d -g g: per-group sizes %r, group sizes %r" % (k, dict(cg), {x: len(rs) for x, rs in gg.items()}))
        nt = n >= 3 and k >= 1
    elif pred == "decimate-b":
        kk = max(1, k)
        exp_full = [r for i, r in enumerate(rows) if i % kk == 0 and i + kk <= n]
        exp_with_partial = [r for i, r in enumerate(rows) if i % kk == 0]
        if got != exp_full and got != exp_with_partial:
            ctx.fail(case, "decimate -b -n %d: got ids %r" % (kk, [dict(g)["id"] for g in got]))
        nt = n >= 3
    ctx.case(case, bool(nt), labels=(verb,), sample={"args": args, "n": n} if nt else None)


def sub_select(ctx):
    ctx.hyp(case_strategy(), lambda c: body(ctx, c), ctx.n(6000, 60000))


SUBCHECKS = [
    Sub("selecting_verbs", sub_select, body, shards={"quick": 12, "thorough": 16}, cost=3, rule=RULE),
]

KNOWN = {}
