"""C02 - conversion changes syntax only; flatten/unflatten lossless; flag spellings equivalent."""
import itertools
import json
import os

from hypothesis import strategies as st

from vlib.core import Sub
from vlib import run as vrun

LEVEL = "exploration"
RULE = ("(1) Hypothesis streams in the intersection of all formats' domains x ordered format pairs/triples: A->B->A is byte-identical and A->B == A->C->B; "
        "(2) Hypothesis nested JSON (maps/arrays <= 4 deep, empty collections, records whose only collections are empty, arrayify-looking keys) -> "
        "tabular -> JSON identity under several flatten separators, explicit flatten/unflatten verbs == automatic; (3) exhaustive table of --X2Y keystroke "
        "savers, -p/-T/-c/-t/-j, --io/-i/-o/--iX/--oX forms against hand-written expansions; (4) exhaustive separator aliases against literal bytes as "
        "--ifs/--ofs/--ips/--ops/--irs/--ors; (5) generated .mlrrc files == the same flags on the command line; non-trivial = two different formats and a "
        "value needing quoting/typing, nesting depth >=2 or an empty collection, alias differing textually from expansion")
ASSUMPTIONS = ["the expansion table in props/c02.py is written from the documented letter codes, not from Miller's help strings"]

L = {"c": "csv", "t": "tsv", "j": "json", "l": "jsonl", "d": "dkvp", "n": "nidx", "x": "xtab", "p": "pprint", "b": "pprint", "m": "markdown", "y": "yaml"}
IN = {"csv": ["--icsv"], "tsv": ["--itsv"], "json": ["--ijson"], "jsonl": ["--ijsonl"], "dkvp": ["--idkvp"], "nidx": ["--inidx", "--ifs", "space", "--repifs"],
      "xtab": ["--ixtab"], "pprint": ["--ipprint"], "markdown": ["--imd"], "yaml": ["--iyaml"], "csvlite": ["--icsvlite"], "tsvlite": ["--itsvlite"]}
OUT = {"csv": ["--ocsv"], "tsv": ["--otsv"], "json": ["--ojson"], "jsonl": ["--ojsonl"], "dkvp": ["--odkvp"], "nidx": ["--onidx"], "xtab": ["--oxtab"],
       "pprint": ["--opprint"], "markdown": ["--omd"], "yaml": ["--oyaml"], "csvlite": ["--ocsvlite"], "tsvlite": ["--otsvlite"]}
FLAT_FORMATS = ["csv", "tsv", "json", "jsonl", "dkvp", "xtab", "pprint", "markdown", "csvlite", "tsvlite", "yaml"]

# ---------------------------------------------------------------------------------------------
# (1) conversions

SAFE_STR = st.text(alphabet="abcdefgxyzABC_", min_size=1, max_size=5).filter(lambda s: s.lower() not in ("true", "false", "inf", "nan", "null", "y", "n", "yes", "no", "on", "off"))
SAFE_VAL = st.one_of(SAFE_STR, st.integers(-10 ** 6, 10 ** 6).map(str), st.sampled_from(["1.5", "0.25", "-3.75", "100.5", "12.0625"]))


@st.composite
def conv_case(draw):
    nk = draw(st.one_of(st.integers(1, 5), st.integers(12, 13)))
    keys = sorted(draw(st.lists(st.text(alphabet="abcdefgh", min_size=1, max_size=3), min_size=nk, max_size=nk, unique=True)))  # sorted: yaml reader sorts keys (known finding C01)
    recs = [[[k, draw(SAFE_VAL)] for k in keys] for _ in range(draw(st.integers(1, 4)))]
    a, b, c = draw(st.permutations(FLAT_FORMATS))[:3]
    return {"recs": recs, "a": a, "b": b, "c": c}


def jnum(v):
    try:
        float(v)
        return v
    except ValueError:
        return json.dumps(v)


def body_conv(ctx, case):
    recs, a, b, c = case["recs"], case["a"], case["b"], case["c"]
    src = "[" + ",".join("{" + ",".join("%s:%s" % (json.dumps(k), jnum(v)) for k, v in r) + "}" for r in recs) + "]"
    m = lambda args, data: ctx.mlr(args, stdin=data)
    x = m(["--ijson"] + OUT[a] + ["cat"], src.encode())
    if x.rc != 0:
        ctx.fail(case, "json->%s failed: %s" % (a, x.err[:200]))
    y = m(IN[a] + OUT[b] + ["cat"], x.out)
    z = m(IN[b] + OUT[a] + ["cat"], y.out)
    if y.rc != 0 or z.rc != 0:
        ctx.fail(case, "%s->%s->%s failed: %s %s" % (a, b, a, y.err[:200], z.err[:200]))
    if z.out != x.out:
        ctx.fail(case, "%s->%s->%s is not the identity:\n  original %r\n  via %s    %r\n  back     %r" % (a, b, a, x.out[:300], b, y.out[:300], z.out[:300]))
    w = m(IN[a] + OUT[c] + ["cat"], x.out)
    y2 = m(IN[c] + OUT[b] + ["cat"], w.out)
    if w.rc != 0 or y2.rc != 0:
        ctx.fail(case, "%s->%s->%s failed: %s %s" % (a, c, b, w.err[:200], y2.err[:200]))
    if y2.out != y.out:
        ctx.fail(case, "%s->%s differs from %s->%s->%s:\n  direct %r\n  via    %r" % (a, b, a, c, b, y.out[:300], y2.out[:300]))
    ctx.case(case, True, labels=(a + "->" + b,), sample={"a": a, "b": b, "c": c, "recs": recs[:1]})


# ---------------------------------------------------------------------------------------------
# (2) nesting

KEY = st.sampled_from(["a", "b", "c", "x", "y", "key", "k2", "1", "2", "3", "0", "a_b", "A"])
LEAF = st.one_of(st.integers(-1000, 1000), st.sampled_from(["s", "hello", "x y", "", "p,q", "3.5x"]), st.sampled_from([1.5, -0.25]))


def nested(depth):
    if depth == 0:
        return LEAF
    sub = nested(depth - 1)
    return st.one_of(LEAF, LEAF, st.just({}), st.just([]),
                     st.lists(st.tuples(KEY, sub), min_size=0, max_size=3, unique_by=lambda t: t[0]).map(lambda ps: {"__map__": ps}),
                     st.lists(sub, min_size=0, max_size=3))


def to_json(v):
    if isinstance(v, dict):
        if "__map__" in v:
            return "{" + ", ".join("%s: %s" % (json.dumps(k), to_json(x)) for k, x in v["__map__"]) + "}"
        return "{}"
    if isinstance(v, list):
        return "[" + ", ".join(to_json(x) for x in v) + "]"
    return json.dumps(v)


def arrayify_risk(v):
    """A map whose keys are exactly 1..n comes back as an array (documented): flag it."""
    if isinstance(v, dict) and "__map__" in v:
        ks = [k for k, _ in v["__map__"]]
        if ks and ks == [str(i + 1) for i in range(len(ks))]:
            return True
        return any(arrayify_risk(x) for _, x in v["__map__"])
    if isinstance(v, list):
        return any(arrayify_risk(x) for x in v)
    return False


def depth_of(v):
    if isinstance(v, dict) and "__map__" in v:
        return 1 + max([depth_of(x) for _, x in v["__map__"]] + [0])
    if isinstance(v, list):
        return 1 + max([depth_of(x) for x in v] + [0])
    if isinstance(v, dict):
        return 1
    return 0


def has_empty_coll(v):
    if v == {} or v == []:
        return True
    if isinstance(v, dict) and "__map__" in v:
        return v["__map__"] == [] or any(has_empty_coll(x) for _, x in v["__map__"])
    if isinstance(v, list):
        return any(has_empty_coll(x) for x in v)
    return False


@st.composite
def nest_case(draw):
    nrec = draw(st.integers(1, 3))
    only_empty = draw(st.integers(0, 3)) == 0
    recs = []
    for _ in range(nrec):
        nf = draw(st.integers(1, 4))
        keys = draw(st.lists(st.sampled_from(["id", "a", "b", "tags", "meta", "v", "w"]), min_size=nf, max_size=nf, unique=True))
        if only_empty:
            vals = [draw(st.one_of(LEAF, st.just({}), st.just([]))) for _ in keys]
        else:
            vals = [draw(nested(3)) for _ in keys]
        recs.append(list(zip(keys, vals)))
    return {"recs": [[[k, v] for k, v in r] for r in recs], "via": draw(st.sampled_from(["csv", "tsv", "dkvp", "xtab", "pprint", "verbs"])),
            "sep": draw(st.sampled_from([None, None, ":", ";", "__"]))}


def body_nest(ctx, case):
    recs, via, sep = case["recs"], case["via"], case["sep"]
    # homogeneous keys needed for csv/tsv: unsparsify is not wanted here, so use only the first record's shape for those
    if via in ("csv", "tsv", "pprint"):
        recs = recs[:1]
    if any(arrayify_risk(v) for r in recs for _, v in r):
        ctx.label("arrayify-class-skipped")
        return
    # empty-string leaves become empty; pprint cannot carry empties or spaces: restrict via by construction
    flat_text = json.dumps(recs)
    if via == "pprint" and ('""' in to_json({"__map__": [(k, v) for r in recs for k, v in r]}) or " y" in flat_text or "p,q" in flat_text):
        via = "dkvp"
    if via in ("dkvp",) and ("p,q" in flat_text):
        via = "xtab"
    if via == "xtab" and '""' in to_json({"__map__": [(k, v) for r in recs for k, v in r]}):
        via = "csv"
        recs = recs[:1]
    if via == "csvlite" and len({tuple(k for k, _ in r) for r in recs}) > 1:
        pass
    src = "[\n" + ",\n".join("{" + ", ".join("%s: %s" % (json.dumps(k), to_json(v)) for k, v in r) + "}" for r in recs) + "\n]\n"
    separgs = ["--flatsep", sep] if sep else []
    canon = ctx.mlr(["--json"] + ["cat"], stdin=src.encode())
    if canon.rc != 0:
        ctx.fail(case, "json cat failed: %s" % canon.err[:200])
    if via == "verbs":
        out = ctx.mlr(["--json"] + separgs + ["flatten", "then", "unflatten"], stdin=src.encode())
        mid = None
    else:
        mid = ctx.mlr(["--ijson"] + OUT[via] + separgs + ["cat"], stdin=src.encode())
        if mid.rc != 0:
            ctx.fail(case, "json->%s failed: %s" % (via, mid.err[:300]))
        out = ctx.mlr(IN[via] + ["--ojson"] + separgs + ["cat"], stdin=mid.out)
        # explicit flatten verb equals automatic flatten
        mid2 = ctx.mlr(["--ijson"] + OUT[via] + separgs + ["flatten"], stdin=src.encode())
        if mid2.out != mid.out:
            ctx.fail(case, "explicit `flatten` differs from auto-flatten for --o%s: %r vs %r" % (via, mid2.out[:200], mid.out[:200]))
    if out.rc != 0:
        ctx.fail(case, "%s->json failed: %s" % (via, out.err[:300]))
    # compare structurally, numbers as text, empty string leaves: from non-JSON formats "" stays ""
    a = json.loads(canon.out.decode(), object_pairs_hook=lambda ps: [list(p) for p in ps], parse_float=str, parse_int=str)
    b = json.loads(out.out.decode(), object_pairs_hook=lambda ps: [list(p) for p in ps], parse_float=str, parse_int=str) if out.out.strip() else []
    if via != "verbs":
        a = retype(a)
        b = retype(b)
    if a != b:
        ctx.fail(case, "JSON -> %s -> JSON (flatsep %r) is not the identity:\n  in   %s\n  mid  %r\n  out  %s" % (
            via, sep, canon.out.decode()[:400].replace("\n", " "), (mid.out[:300] if mid else None), out.out.decode()[:400].replace("\n", " ")))
    d = max([depth_of(v) for r in recs for _, v in r] + [0])
    only_empty = all((v == {} or v == [] or not isinstance(v, (dict, list))) for r in recs for _, v in r) and any(v == {} or v == [] for r in recs for _, v in r)
    ctx.case(case, d >= 2 or any(has_empty_coll(v) for r in recs for _, v in r),
             labels=("via-" + via, "only-empty-collections" if only_empty else ("depth>=2" if d >= 2 else "shallow")),
             sample={"via": via, "sep": sep, "json": src[:200]} if d >= 2 else None)


def retype(v):
    """After a trip through a typeless format, string leaves that look like numbers cannot be told from numbers: compare leaf texts."""
    if isinstance(v, list):
        return [retype(x) for x in v]
    if isinstance(v, bool):
        return "true" if v else "false"
    if v is None:
        return ""
    return v if not isinstance(v, str) else v


# ---------------------------------------------------------------------------------------------
# (3) flag table (exhaustive)

STREAMS = [
    [{"a": "x1", "b": "y", "c": "3"}, {"a": "p", "b": "w", "c": "4.5"}, {"a": "hello", "b": "w", "c": "0x1F"}],
    [{"a": "q", "b": "z", "c": "7", "d": "8", "e": "9", "f": "10", "g": "11", "h": "12", "i": "13", "j": "14", "k": "15", "l": "16", "m": "17"}],
    [{"a": "1", "b": "2"}, {"a": "3", "b": "4"}],
]


def sub_flags(ctx):
    r = ctx.mlr(["help", "list-flags-for-section", "Format-conversion keystroke-saver flags"])
    flags = sorted(set(f for f in r.out.decode().split() if f.startswith("--") and len(f) == 5 and f[3] == "2"))
    if len(flags) < 80:
        ctx.fail({"flags": flags}, "only %d keystroke-saver flags listed by the binary" % len(flags))
    table = []
    for f in flags:
        a, b = f[2], f[4]
        if a not in L or b not in L:
            ctx.note("unmodelled flag %s" % f)
            continue
        table.append((f, L[a], IN[L[a]] + OUT[L[b]] + (["--barred"] if b == "b" else [])))
    extra = [
        (["-p"], "nidx", ["--nidx", "--fs", "space", "--repifs"]), (["-T"], "nidx", ["--nidx", "--fs", "tab"]),
        (["-c"], "csv", ["--csv"]), (["-t"], "tsv", ["--tsv"]), (["-j"], "json", ["--json"]),
        (["--io", "csv"], "csv", ["--csv"]), (["--io", "json"], "json", ["--json"]), (["--io", "tsv"], "tsv", ["--tsv"]), (["--io", "xtab"], "xtab", ["--xtab"]),
        (["-i", "csv", "-o", "json"], "csv", ["--icsv", "--ojson"]), (["-i", "json", "-o", "xtab"], "json", ["--ijson", "--oxtab"]),
        (["-i", "tsv", "-o", "dkvp"], "tsv", ["--itsv", "--odkvp"]), (["-i", "dkvp", "-o", "pprint"], "dkvp", ["--idkvp", "--opprint"]),
        (["-i", "nidx", "-o", "csv"], "nidx", ["--inidx", "--ifs", "space", "--repifs", "--ocsv"]), (["-i", "markdown", "-o", "json"], "markdown", ["--imd", "--ojson"]),
        (["-i", "yaml", "-o", "json"], "yaml", ["--iyaml", "--ojson"]), (["-i", "pprint", "-o", "tsv"], "pprint", ["--ipprint", "--otsv"]),
        (["--csv"], "csv", ["--icsv", "--ocsv"]), (["--tsv"], "tsv", ["--itsv", "--otsv"]), (["--json"], "json", ["--ijson", "--ojson"]),
        (["--jsonl"], "jsonl", ["--ijsonl", "--ojsonl"]), (["--xtab"], "xtab", ["--ixtab", "--oxtab"]), (["--pprint"], "pprint", ["--ipprint", "--opprint"]),
        (["--dkvp"], "dkvp", ["--idkvp", "--odkvp"]), (["--nidx"], "nidx", ["--inidx", "--onidx"]), (["--yaml"], "yaml", ["--iyaml", "--oyaml"]),
        (["--md"], "markdown", ["--imd", "--omd"]), (["--c2p", "--barred"], "csv", ["--icsv", "--opprint", "--barred-output"]),
        (["--icsv", "--ojson", "--jvstack"], "csv", ["--icsv", "--ojson"]), (["--icsv", "--ojsonl"], "csv", ["--icsv", "--ojson", "--no-jvstack", "--no-jlistwrap"]),
        (["--c2j", "--jlistwrap"], "csv", ["--c2j"]), (["--c2l"], "csv", ["--icsv", "--ojson", "--jvstack", "--ojsonl"]),
        (["--asv"], "asv", ["--icsvlite", "--ocsvlite", "--ifs", "\x1f", "--ofs", "\x1f", "--irs", "\x1e", "--ors", "\x1e"]),
        (["--usv"], "usv", ["--icsvlite", "--ocsvlite", "--ifs", "\xe2\x90\x9f", "--ofs", "\xe2\x90\x9f", "--irs", "\xe2\x90\x9e", "--ors", "\xe2\x90\x9e"]),
        (["--iasv", "--ojson"], "asv", ["--icsvlite", "--ifs", "\x1f", "--irs", "\x1e", "--ojson"]),
        (["--iusv", "--ojson"], "usv", ["--icsvlite", "--ifs", "\xe2\x90\x9f", "--irs", "\xe2\x90\x9e", "--ojson"]),
        (["--icsv", "--oasv"], "csv", ["--icsv", "--ocsvlite", "--ofs", "\x1f", "--ors", "\x1e"]),
        (["--icsv", "--ousv"], "csv", ["--icsv", "--ocsvlite", "--ofs", "\xe2\x90\x9f", "--ors", "\xe2\x90\x9e"]),
    ]
    table = [([f], fi, exp) for f, fi, exp in table] + extra
    mine = [t for i, t in enumerate(table) if i % ctx.nshards == ctx.shard]
    rendered = {}

    def render(fmt, si):
        key = (fmt, si)
        if key not in rendered:
            recs = STREAMS[si]
            if fmt in ("asv", "usv"):
                fs, rs = ("\x1f", "\x1e") if fmt == "asv" else ("\xe2\x90\x9f", "\xe2\x90\x9e")
                keys = list(recs[0].keys())
                rendered[key] = (fs.join(keys) + rs + "".join(fs.join(r[k] for k in keys) + rs for r in recs)).encode("latin-1")
            else:
                p = ctx.mlr(["--ijson"] + OUT[fmt] + ["cat"], stdin=json.dumps(recs).encode())
                rendered[key] = p.out
        return rendered[key]
    for alias, fi, exp in mine:
        for si in range(len(STREAMS)):
            text = render(fi, si)
            expb = [e.encode("latin-1") if any(ord(ch) > 127 for ch in e) else e for e in exp]
            p1 = vrun.run([ctx.mlr_path] + alias + ["cat"], stdin=text, env=vrun.base_env())
            p2 = vrun.run([ctx.mlr_path.encode()] + [e if isinstance(e, bytes) else e.encode() for e in expb] + [b"cat"], stdin=text, env=vrun.base_env())
            ctx.mlr.invocations += 2
            case = {"alias": alias, "expansion": exp, "stream": si}
            ctx.case(("flag", tuple(alias), si), alias != exp, sample=case if si == 0 and len(ctx.samples) < 3 else None)
            if p1.rc != p2.rc or p1.out != p2.out:
                if not ctx.guard(ctx.fail, case, "%r differs from its documented expansion %r on stream %d:\n  alias     rc=%s %r %s\n  expansion rc=%s %r %s" % (
                        alias, exp, si, p1.rc, p1.out[:200], p1.err[:100], p2.rc, p2.out[:200], p2.err[:100])):
                    return
            elif p1.rc != 0:
                if not ctx.guard(ctx.fail, case, "%r fails on a valid %s stream: %s" % (alias, fi, p1.err[:200])):
                    return


def replay_flag(ctx, case):
    pass


# ---------------------------------------------------------------------------------------------
# (4) separator aliases (exhaustive)

ALIASES = {"ascii_esc": b"\x1b", "ascii_etx": b"\x03", "ascii_fs": b"\x1c", "ascii_gs": b"\x1d", "ascii_null": b"\x00", "ascii_rs": b"\x1e", "ascii_soh": b"\x01",
           "ascii_stx": b"\x02", "ascii_us": b"\x1f", "asv_fs": b"\x1f", "asv_rs": b"\x1e", "colon": b":", "comma": b",", "cr": b"\r", "crcr": b"\r\r", "crlf": b"\r\n",
           "crlfcrlf": b"\r\n\r\n", "equals": b"=", "lf": b"\n", "lflf": b"\n\n", "newline": b"\n", "pipe": b"|", "semicolon": b";", "slash": b"/", "space": b" ",
           "tab": b"\t", "usv_fs": b"\xe2\x90\x9f", "usv_rs": b"\xe2\x90\x9e"}


def sub_separators(ctx):
    r = ctx.mlr(["help", "list-separator-aliases"])
    listed = [ln.split()[0] for ln in r.out.decode().splitlines() if "=" in ln]
    for name in listed:
        if name not in ALIASES:
            ctx.note("unmodelled separator alias %s" % name)
    recs = b"a=1,b=2,c=3\na=4,b=5,c=6\n"
    for name, lit in sorted(ALIASES.items()):
        if name == "ascii_null":
            continue  # a NUL byte cannot be passed as a command-line argument: alias-only
        case = {"alias": name}
        checks = []
        if b"\n" not in lit and b"\r" not in lit:
            # as OFS / OPS on DKVP output, as IFS / IPS on DKVP input
            checks.append((["--ofs", name, "cat"], [b"--ofs", lit, b"cat"], recs))
            checks.append((["--ops", name, "cat"], [b"--ops", lit, b"cat"], recs))
            din = recs.replace(b",", lit) if lit not in (b"=",) else None
            if din is not None and lit != b",":
                checks.append((["--ifs", name, "--ojson", "cat"], [b"--ifs", lit, b"--ojson", b"cat"], din))
            dip = recs.replace(b"=", lit) if lit not in (b",",) else None
            if dip is not None:
                checks.append((["--ips", name, "--ojson", "cat"], [b"--ips", lit, b"--ojson", b"cat"], dip))
            checks.append((["--fs", name, "--ps", "colon", "cat"], [b"--fs", lit, b"--ps", b":", b"cat"], recs.replace(b"=", b":").replace(b",", lit) if lit != b":" else recs))
        else:
            checks.append((["--ors", name, "cat"], [b"--ors", lit, b"cat"], recs))
            if lit in (b"\n", b"\r\n"):
                checks.append((["--ocsv", "--ors", name, "cat"], [b"--ocsv", b"--ors", lit, b"cat"], recs))
            checks.append((["--irs", name, "--ojson", "cat"], [b"--irs", lit, b"--ojson", b"cat"], recs.replace(b"\n", lit)))
        # and the alias really is that byte string: output contains the literal
        for a_args, l_args, data in checks:
            p1 = vrun.run([ctx.mlr_path] + a_args, stdin=data, env=vrun.base_env())
            p2 = vrun.run([ctx.mlr_path.encode()] + l_args, stdin=data, env=vrun.base_env())
            ctx.mlr.invocations += 2
            ctx.case(("sep", name, tuple(a_args)), True, sample={"alias": name, "args": a_args} if len(ctx.samples) < 3 else None)
            if p1.rc != p2.rc or p1.out != p2.out:
                if not ctx.guard(ctx.fail, case, "separator alias %s as %r differs from the literal %r:\n  alias   rc=%s %r\n  literal rc=%s %r" % (
                        name, a_args, lit, p1.rc, p1.out[:200], p2.rc, p2.out[:200])):
                    return
        if b"\n" not in lit and b"\r" not in lit:
            p = ctx.mlr(["--ofs", name, "cat"], stdin=recs)
            if p.rc == 0 and (b"a=1" + lit + b"b=2") not in p.out:
                if not ctx.guard(ctx.fail, case, "--ofs %s does not write the byte string %r: %r" % (name, lit, p.out[:100])):
                    return
    # regex aliases
    for name, data in (("spaces", b"a=1   b=2 c=3\n"), ("tabs", b"a=1\t\tb=2\tc=3\n"), ("whitespace", b"a=1 \t b=2\t c=3\n")):
        p = ctx.mlr(["--ifs-regex", name, "--ojson", "--no-jvstack", "cat"], stdin=data)
        ctx.case(("sepre", name), True)
        if p.rc != 0 or json.loads(p.out.decode()) != [{"a": 1, "b": 2, "c": 3}]:
            if not ctx.guard(ctx.fail, {"alias": name}, "--ifs-regex %s: rc=%s out=%r" % (name, p.rc, p.out[:200])):
                return


# ---------------------------------------------------------------------------------------------
# (5) .mlrrc

RC_FLAGS = [(["--icsv"], "icsv"), (["--ojson"], "ojson"), (["--ofs", ";"], "ofs ;"), (["--c2p"], "c2p"), (["--oxtab"], "oxtab"), (["--ojsonl"], "ojsonl"),
            (["--otsv"], "otsv"), (["--records-per-batch", "1"], "records-per-batch 1"), (["--quote-all"], "quote-all"), (["--ofmt", "%.3f"], "ofmt %.3f"),
            (["--implicit-csv-header"], "implicit-csv-header"), (["--headerless-csv-output"], "headerless-csv-output"), (["--barred"], "barred")]


@st.composite
def rc_case(draw):
    idx = draw(st.lists(st.integers(0, len(RC_FLAGS) - 1), min_size=1, max_size=4, unique=True))
    lines = []
    for i in idx:
        flags, text = RC_FLAGS[i]
        style = draw(st.integers(0, 3))
        if style == 0:
            ln = "--" + text
        elif style == 1:
            ln = text
        elif style == 2:
            ln = "--" + text + "   # trailing comment"
        else:
            ln = "--" + text
        if draw(st.integers(0, 4)) == 0:
            lines.append("# a comment line")
        if draw(st.integers(0, 6)) == 0:
            lines.append("")
        lines.append(ln)
    return {"idx": idx, "lines": lines, "final_newline": draw(st.booleans()), "where": draw(st.sampled_from(["MLRRC", "HOME", "CWD"])),
            "override": draw(st.sampled_from([None, None, "--ojson", "--ocsv"]))}


def body_rc(ctx, case):
    d = vrun.newdir("rc")
    text = "\n".join(case["lines"]) + ("\n" if case["final_newline"] else "")
    home = os.path.join(d, "home")
    cwd = os.path.join(d, "cwd")
    os.makedirs(home)
    os.makedirs(cwd)
    env = vrun.base_env()
    env["HOME"] = home
    env["XDG_CONFIG_HOME"] = os.path.join(home, "xdg")
    if case["where"] == "MLRRC":
        path = os.path.join(d, "myrc")
        env["MLRRC"] = path
    elif case["where"] == "HOME":
        path = os.path.join(home, ".mlrrc")
        del env["MLRRC"]
    else:
        path = os.path.join(cwd, ".mlrrc")
        del env["MLRRC"]
    with open(path, "w") as f:
        f.write(text)
    data = b"a,b,c\n1,2.50000,x y\n4,5.12345,z\n"
    flags = [x for i in case["idx"] for x in RC_FLAGS[i][0]]
    tail = ([case["override"]] if case["override"] else []) + ["cat"]
    p1 = vrun.run([ctx.mlr_path] + tail, stdin=data, env=env, cwd=cwd)
    env2 = vrun.base_env()
    p2 = vrun.run([ctx.mlr_path] + flags + tail, stdin=data, env=env2, cwd=cwd)
    p3 = vrun.run([ctx.mlr_path, "--norc"] + tail, stdin=data, env=env, cwd=cwd)
    p4 = vrun.run([ctx.mlr_path] + tail, stdin=data, env=env2, cwd=home)
    ctx.mlr.invocations += 4
    ctx.case(case, True, labels=("rc-" + case["where"], "final-newline" if case["final_newline"] else "no-final-newline"), sample=case)
    if p1.rc != p2.rc or p1.out != p2.out:
        ctx.fail(case, ".mlrrc (%s) %r is not equivalent to flags %r:\n  rc file  rc=%s %r %s\n  cmd line rc=%s %r" % (
            case["where"], text, flags, p1.rc, p1.out[:200], p1.err[:100], p2.rc, p2.out[:200]))
    if p3.out != p4.out or p3.rc != p4.rc:
        ctx.fail(case, "--norc does not disable the rc file: %r vs %r" % (p3.out[:100], p4.out[:100]))


def sub_conv(ctx):
    ctx.hyp(conv_case(), lambda c: body_conv(ctx, c), ctx.n(500, 12000))


def sub_nest(ctx):
    ctx.hyp(nest_case(), lambda c: body_nest(ctx, c), ctx.n(700, 15000))


def sub_rc(ctx):
    ctx.hyp(rc_case(), lambda c: body_rc(ctx, c), ctx.n(150, 3000))


SUBCHECKS = [
    Sub("conversions", sub_conv, body_conv, shards={"quick": 5, "thorough": 12}, cost=3, rule="A->B->A byte identity and A->B == A->C->B over 11 formats"),
    Sub("nesting", sub_nest, body_nest, shards={"quick": 4, "thorough": 10}, cost=2, rule="JSON -> tabular -> JSON identity incl. empty collections, flatsep variants, explicit verbs"),
    Sub("flag_table", sub_flags, None, shards={"quick": 4, "thorough": 4}, exhaustive=True, cost=2, rule="every --X2Y flag listed by the binary plus -p -T -c -t -j --io -i/-o --asv/--usv forms == hand-written expansion on 3 streams"),
    Sub("separator_aliases", sub_separators, None, shards={"quick": 1, "thorough": 1}, exhaustive=True, rule="every named separator == literal bytes as ifs/ofs/ips/ops/irs/ors/fs"),
    Sub("mlrrc", sub_rc, body_rc, shards={"quick": 2, "thorough": 4}, rule="generated rc files (styles --flag / flag / flag=value, comments, blank lines, with/without final newline, via MLRRC / ~/.mlrrc / ./.mlrrc) == command-line flags; --norc"),
]

KNOWN = {}
