"""C06 - type inference from data follows the documented number grammar."""
import itertools
import json
import math
import re

from hypothesis import strategies as st

from vlib.core import Sub
from vlib import model_num as mn

LEVEL = "exploration"
RULE = ("all strings up to length L over a 22-symbol numeric alphabet (exhaustive) plus structured boundary numerals and "
        "one-edit mutations of valid numerals, each under default/-S/-A/-O in CSV/DKVP/JSON-string/JSON-number/DSL-literal "
        "contexts; judged by a regex model of the documented grammar; non-trivial = the model classifies the string as "
        "non-string or it contains a digit (near-miss)")
ASSUMPTIONS = ["documented grammar as transcribed in vlib/model_num.py:infer", "Python int()/float() parse numerals correctly"]

ALPHA = list("0179+-.eExXoObBafF_ 8A")
FLAGS = ["", "-S", "-A", "-O"]

PROG = ('emit1 {"i": $i, "t": typeof($x), "v": $x + 0, "tv": typeof($x + 0), "w": $x . "", '
        '"ii": is_int($x), "if": is_float($x), "is": is_string($x), "in": is_numeric($x), "ie": is_empty($x), '
        '"ne": is_not_empty($x), "d": fmtifnum($x, "%d")}')


def all_strings(L):
    for n in range(0, L + 1):
        for t in itertools.product(ALPHA, repeat=n):
            yield "".join(t)


def judge_row(ctx, s, flag, context, cols, acc=None):
    t_, v, tv = cols["t"], cols["v"], cols["tv"]
    acc = acc if acc is not None else mn.infer(s, flag)
    types = {a[0] for a in acc}
    case = {"s": s, "flag": flag, "context": context}
    nontrivial = (types != {"string"}) or any(c.isdigit() for c in s)
    ctx.case(("c06", s, flag, context), nontrivial, labels=("underdetermined",) if len(acc) > 1 else (),
             sample={"string": s, "flag": flag, "context": context, "typeof": t_} if (nontrivial and len(s) > 2 and len(ctx.samples) < 4) else None)
    ok = t_ in types
    msg = ""
    if not ok:
        msg = "typeof=%s, model accepts %s" % (t_, sorted(types))
    else:
        want = [a[1] for a in acc if a[0] == t_][0]
        if want is not None and t_ == "int":
            if not (tv == "int" and v.lstrip("+-").isdigit() and int(v) == want):
                ok, msg = False, "int value: $x+0 = %s (%s), model %d" % (v, tv, want)
        elif want is not None and t_ == "float":
            try:
                g = mn.parse_float_out(v)
                if not (tv == "float" and (g == want or (g != g and want != want))):
                    ok, msg = False, "float value: $x+0 = %s (%s), model %r" % (v, tv, want)
            except ValueError:
                ok, msg = False, "float value unparsable: %s" % v
    if ok:
        # internal consistency of the single classification
        exp = {"ii": t_ == "int", "if": t_ == "float", "is": t_ in ("string", "empty"), "in": t_ in ("int", "float"),
               "ie": t_ == "empty", "ne": t_ != "empty"}
        for k, e in exp.items():
            if cols[k] != ("true" if e else "false"):
                ok, msg = False, "predicate %s=%s but typeof=%s" % (k, cols[k], t_)
                break
        if ok and cols["w"] != s and context in ("csv", "dkvp"):
            ok, msg = False, 'original text not retained: $x . "" = %r' % cols["w"]
        if ok and t_ == "string" and cols["d"] != s:
            ok, msg = False, "fmtifnum of a string changed it: %r" % cols["d"]
        if ok and t_ == "int" and want is not None:
            try:
                if int(cols["d"]) != want:
                    ok, msg = False, 'fmtifnum($x,"%%d") = %s, model %d' % (cols["d"], want)
            except ValueError:
                ok, msg = False, 'fmtifnum($x,"%%d") = %s' % cols["d"]
    if not ok:
        ctx.fail(case, "%r (flag %r, %s): %s" % (s, flag, context, msg))


def run_column(ctx, strings, flag, context):
    """Feed strings as one column; judge every row."""
    if context == "csv":
        data = "i,x\n" + "".join("%d,%s\n" % (i, s) for i, s in enumerate(strings))
        iargs = ["--icsv"]
    elif context == "dkvp":
        data = "".join("i=%d,x=%s\n" % (i, s) for i, s in enumerate(strings))
        iargs = ["--idkvp"]
    elif context == "jsonstr":
        data = "\n".join(json.dumps({"i": i, "x": s}) for i, s in enumerate(strings)) + "\n"
        iargs = ["--ijson"]
    elif context == "jsonnum":
        data = "\n".join('{"i": %d, "x": %s}' % (i, s) for i, s in enumerate(strings)) + "\n"
        iargs = ["--ijson"]
    else:
        raise ValueError(context)
    args = ([flag] if flag else []) + iargs + ["--otsv", "put", "-q", PROG]
    res = ctx.mlr(args, stdin=data.encode(), timeout=300)
    if res.rc != 0 or res.panicked:
        ctx.fail({"strings": strings[:5], "flag": flag, "context": context, "n": len(strings)},
                 "mlr failed rc=%s on %d strings: %s" % (res.rc, len(strings), res.err[:500].decode("utf-8", "replace")))
        return
    lines = res.out.decode("utf-8", "replace").split("\n")
    if lines and lines[-1] == "":
        lines.pop()
    hdr = lines[0].split("\t") if lines else []
    if len(lines) - 1 != len(strings):
        ctx.fail({"strings": strings[:5], "flag": flag, "context": context, "n": len(strings)},
                 "row count: %d in, %d out" % (len(strings), len(lines) - 1))
        return
    for s, ln in zip(strings, lines[1:]):
        cols = dict(zip(hdr, ln.split("\t")))
        for k in ("v", "w", "d"):
            cols.setdefault(k, "")
        if context == "jsonstr":
            # JSON string values are never inferred (empty stays empty)
            acc = [("empty", None)] if s == "" else [("string", None)]
        else:
            acc = None
        if not ctx.guard(judge_row, ctx, s, flag, context, cols, acc):
            return


def replay_one(ctx, case):
    if "s" not in case:
        return
    ctxs = case["context"]
    if ctxs == "literal":
        return replay_literal(ctx, case)
    if ctxs == "sort":
        return
    run_column(ctx, [case["s"]], case["flag"], ctxs)


def sub_exhaustive(ctx):
    L = 3 if ctx.quick else 4
    strings = [s for i, s in enumerate(all_strings(L)) if i % ctx.nshards == ctx.shard and s != ""]
    for flag in FLAGS:
        run_column(ctx, strings, flag, "csv")
    if ctx.shard == 0:
        for flag in FLAGS:
            run_column(ctx, [""] + strings[:50], flag, "dkvp")


def boundary_strings(quick):
    out = set()
    mags = [2 ** 63 - 1, 2 ** 63, 2 ** 63 + 1, 2 ** 64 - 1, 2 ** 64, 2 ** 64 + 1, 2 ** 62, 10 ** 18, 10 ** 19, 10 ** 20, 99999999999999999999,
            2 ** 53, 2 ** 53 + 1, 123456789, 0, 1, 7, 8, 9, 10, 255, 2 ** 31, 2 ** 32, 10 ** 30, 10 ** 400]
    for m in mags:
        for sign in ("", "-", "+"):
            out.add("%s%d" % (sign, m))
            if m < 2 ** 70:
                out.add("%s0x%x" % (sign, m))
                out.add("%s0X%X" % (sign, m))
                out.add("%s0b%s" % (sign, bin(m)[2:]))
                out.add("%s0o%o" % (sign, m))
                out.add("%s0%o" % (sign, m))
                out.add("%s0%d" % (sign, m))
                out.add("%s00%d" % (sign, m))
                out.add("%s%d.0" % (sign, m))
                out.add("%s%d." % (sign, m))
                out.add("%s%de0" % (sign, m))
                out.add("%s%dE+1" % (sign, m))
    for h in ["0x7fffffffffffffff", "0x8000000000000000", "0xffffffffffffffff", "0x10000000000000000", "0x00000000000000001", "0x8000000000000001",
              "0xFFFFFFFFFFFFFFFE", "0x7FFFFFFFFFFFFFFF", "0xdeadbeef", "0xDEADbeef", "0x", "0xg", "0x1g", "0b2", "0b", "0o8", "0o", "0x1.8p3", "0x.8", "1e308", "1e309",
              "-1e309", "4.9e-324", "1e-400", "1.7976931348623157e308", "1.7976931348623159e308", ".5", "5.", ".", "-.5", "+.5e3", "1e", "1e+", "e5", "1e5", "1E5", "1e-5", "1.5e3", "1.e3",
              "1_000", "1,5", " 1", "1 ", "1 2", "Inf", "+Inf", "-Inf", "inf", "NaN", "nan", "infinity", "true", "false", "True", "0.0", "-0.0", "-0", "+0", "00", "0.", "007", "08", "09", "-007", "+08",
              "0007.5", "08.5", "1.2.3", "1e5e5", "--1", "+-1", "1-", "1+", "0x-1", "-0x1", "-0xffffffffffffffff", "-0x8000000000000000", "+0x8000000000000000", "0b11111111111111111111111111111111111111111111111111111111111111111",
              "0b1111111111111111111111111111111111111111111111111111111111111111", "0o1777777777777777777777", "0o777777777777777777777", "1d", "1f", "1L", "1u", "0x1p-2", "1e1.5", "½", "１２", "٣"]:
        out.add(h)
    return sorted(out)


def sub_boundary(ctx):
    strings = [s for i, s in enumerate(boundary_strings(ctx.quick)) if i % ctx.nshards == ctx.shard]
    for flag in FLAGS:
        run_column(ctx, [s for s in strings if "," not in s], flag, "csv")
        run_column(ctx, [s for s in strings if "," not in s and "=" not in s], flag, "dkvp")
        run_column(ctx, strings, flag, "jsonstr")
        jn = [s for s in strings if re.match(r"-?(0|[1-9][0-9]*)(\.[0-9]+)?([eE][+-]?[0-9]+)?$", s) and len(s) < 40]
        run_column(ctx, jn, flag, "jsonnum")


VALID = st.one_of(
    st.integers(-2 ** 70, 2 ** 70).map(str),
    st.integers(0, 2 ** 66).map(lambda v: "0x%x" % v),
    st.integers(0, 2 ** 66).map(lambda v: "0b" + bin(v)[2:]),
    st.integers(0, 2 ** 66).map(lambda v: "0o%o" % v),
    st.floats(allow_nan=False, allow_infinity=False).map(repr),
    st.tuples(st.integers(0, 10 ** 6), st.integers(0, 10 ** 6), st.integers(-320, 320)).map(lambda t: "%d.%de%d" % t),
    st.integers(0, 10 ** 8).map(lambda v: "0%d" % v),
)


def mutate(draw, s):
    k = draw(st.integers(0, 3))
    if k == 0 or not s:
        return s
    pos = draw(st.integers(0, len(s)))
    ch = draw(st.sampled_from(ALPHA + ["2", "5", "c", "D"]))
    if k == 1:
        return s[:pos] + ch + s[pos:]
    if k == 2 and pos < len(s):
        return s[:pos] + s[pos + 1:]
    if pos < len(s):
        return s[:pos] + ch + s[pos + 1:]
    return s


@st.composite
def mutated_numeral(draw):
    s = draw(VALID)
    sign = draw(st.sampled_from(["", "", "-", "+"]))
    if sign and not s.startswith("-"):
        s = sign + s
    return mutate(draw, s)


def sub_mutations(ctx):
    strat = st.lists(mutated_numeral(), min_size=60, max_size=60)

    def body(case):
        if isinstance(case, dict):
            return replay_one(ctx, case)
        strings = [s for s in case if s != "" and "," not in s and "\n" not in s and '"' not in s]
        for flag in FLAGS:
            run_column(ctx, strings, flag, "csv")

    ctx.hyp(strat, body, ctx.n(100, 1200))


def sub_sort_agreement(ctx):
    """`sort -nf` must place model-numeric values first, by value, then everything else."""
    pool = [s for s in boundary_strings(True) if len(mn.infer(s, "")) == 1 and "," not in s and "\n" not in s and '"' not in s and s != ""]
    strat = st.lists(st.one_of(st.sampled_from(pool), mutated_numeral().filter(lambda s: s != "" and "," not in s and '"' not in s and "\n" not in s and len(mn.infer(s, "")) == 1)),
                     min_size=2, max_size=25)

    def body(case):
        strings = case["strings"] if isinstance(case, dict) else case
        data = "i,x\n" + "".join("%d,%s\n" % (i, s) for i, s in enumerate(strings))
        res = ctx.mlr(["--icsv", "--otsv", "sort", "-nf", "x", "then", "put", "$t = typeof($x)"], stdin=data.encode())
        c = {"strings": strings, "context": "sort"}
        if res.rc != 0:
            ctx.fail(c, "sort -nf failed: %s" % res.err[:300])
        rows = [l.split("\t") for l in res.out.decode("utf-8", "replace").split("\n")[1:] if l]
        got = [r[1] for r in rows]
        ctx.case(("sort", tuple(strings)), len(set(strings)) > 2)
        if sorted(got) != sorted(strings):
            ctx.fail(c, "sort -nf is not a permutation: %r -> %r" % (strings, got))
        seen_non = False
        prev = None
        for s in got:
            (typ, val), = mn.infer(s, "")
            if typ in ("int", "float"):
                if seen_non:
                    ctx.fail(c, "sort -nf placed numeric %r after a non-numeric value: %r" % (s, got))
                if prev is not None and float(val) < float(prev) and val < prev:
                    ctx.fail(c, "sort -nf not ascending by value: %r" % got)
                prev = val
            else:
                seen_non = True

    ctx.hyp(strat, body, ctx.n(500, 4000))


def literal_ok(s):
    return bool(re.match(r"(0|[1-9][0-9]*)$|(0|[1-9][0-9]*)\.[0-9]+([eE][+-]?[0-9]+)?$|(0|[1-9][0-9]*)[eE][+-]?[0-9]+$|0x[0-9a-fA-F]+$", s))


def replay_literal(ctx, case):
    s = case["s"]
    res = ctx.mlr(["-n", "put", 'end{print typeof(%s) . "\\t" . (%s + 0)}' % (s, s)])
    acc = mn.infer(s, "")
    if res.rc != 0:
        # a number literal that the docs call a number must be accepted by the DSL
        if all(a[0] in ("int", "float") for a in acc) and len(acc) == 1:
            ctx.fail(case, "DSL rejects number literal %s: %s" % (s, res.err[:300].decode("utf-8", "replace")))
        return
    t_, _, v = res.out.decode().rstrip("\n").partition("\t")
    if not mn.outcome_matches([(a[0], a[1]) for a in acc if a[0] in ("int", "float")] or [("none", None)], t_, v):
        ctx.fail(case, "literal %s: typeof=%s value=%s; model %s" % (s, t_, v, acc))


def sub_literals(ctx):
    # int literals beyond 64 bits are outside the statement (it is about field values) and are left out
    pool = [s for s in boundary_strings(True) if literal_ok(s) and len(s) < 60 and not (s.isdigit() and int(s) >= 2 ** 63)
            and not (s.startswith("0x") and int(s, 16) >= 2 ** 63)]
    pool = [s for i, s in enumerate(pool) if i % ctx.nshards == ctx.shard]
    # batch
    lines = "".join('print typeof(%s) . "\\t" . (%s + 0);' % (s, s) for s in pool)
    res = ctx.mlr(["-n", "put", "end{" + lines + "}"])
    out = res.out.decode("utf-8", "replace").split("\n")
    if res.rc == 0 and len(out) - 1 == len(pool):
        for s, ln in zip(pool, out):
            t_, _, v = ln.partition("\t")
            acc = mn.infer(s, "")
            ctx.case(("lit", s), True)
            if not mn.outcome_matches([(a[0], a[1]) for a in acc if a[0] in ("int", "float")] or [("none", None)], t_, v):
                if not ctx.guard(ctx.fail, {"s": s, "flag": "", "context": "literal"}, "literal %s: typeof=%s value=%s; model %s" % (s, t_, v, acc)):
                    return
    else:
        for s in pool:
            ctx.case(("lit", s), True)
            if not ctx.guard(replay_literal, ctx, {"s": s, "flag": "", "context": "literal"}):
                return


SUBCHECKS = [
    Sub("exhaustive_short", sub_exhaustive, replay_one, shards={"quick": 4, "thorough": 16}, exhaustive=True, cost=5,
        rule="every string of length <= 3 (quick) / <= 4 (thorough) over 22 numeric symbols x 4 flags, CSV column"),
    Sub("boundary_numerals", sub_boundary, replay_one, shards={"quick": 2, "thorough": 2}, exhaustive=True, cost=2,
        rule="every grammar production at boundary magnitudes x sign/prefix-case/leading-zero variants x 4 flags x csv/dkvp/json-string/json-number"),
    Sub("mutated_numerals", sub_mutations, replay_one, shards={"quick": 3, "thorough": 12}, cost=3,
        rule="Hypothesis: valid numerals (up to 2^70, hex/bin/octal, floats, leading zeros) with one character inserted/deleted/replaced"),
    Sub("sort_nf_agreement", sub_sort_agreement, None, shards={"quick": 2, "thorough": 4}, cost=2,
        rule="sort -nf places model-numeric strings first by value; permutation"),
    Sub("dsl_literals", sub_literals, replay_one, shards={"quick": 1, "thorough": 1}, exhaustive=True,
        rule="boundary numerals that lex as one DSL literal"),
]

KNOWN = {}
