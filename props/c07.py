"""C07 - arithmetic is exact on 64-bit ints, overflows to float, never crashes."""
import math

from hypothesis import strategies as st

from vlib.core import Sub, Violation
from vlib import model_num as mn

LEVEL = "exploration"
RULE = ("operand tuples from a boundary grid (exhaustive cross product) plus Hypothesis-random int64/float64 "
        "operands, delivered as data fields to one batched `mlr put`; each (operator, operands) cell is judged against "
        "a Python big-int/IEEE model; non-trivial = an operand within 2^10 of 0, +-2^63 or +-2^64, or non-finite, or the "
        "exact result does not fit int64")
ASSUMPTIONS = ["Python int / float / math are correct", "TSV output of typeof() and the value is a faithful observation"]

M63 = mn.M63


def grid_ints(quick):
    ks = (1, 8, 31, 32, 52, 53, 62, 63) if quick else range(1, 64)
    g = {0, 1, -1, 2, -2, 3, -3, 5, 7, 10, -10, 255, 256, 1000, -1000, 1000000007}
    for k in ks:
        for s in (1, -1):
            for d in (-1, 0, 1):
                g.add(s * (2 ** k) + d)
    g.update([M63 - 1, -M63, M63 - 2, -M63 + 1, M63 - 1024, M63 - 1025, -(M63 - 1024), -(M63 - 1023), 3037000499, 3037000500,
              -3037000500, 3037000501, 4294967296, 4294967295, 9223372037, 2 ** 53 + 1, -(2 ** 53) - 1, 6, -6, 12, -12, 64, 63, 65])
    if not quick:
        g.update([M63 - 512, M63 - 513, M63 - 511, -(M63 - 512), 2 ** 62 + 2 ** 61, 7 ** 22, -(7 ** 22), 3 ** 39, 3 ** 40, 10 ** 18, -10 ** 18,
                  10 ** 9, 2147483647, -2147483648, 46341, 46340, 2097152, 2097151])
    return sorted(x for x in g if mn.fits(x))


def grid_floats(quick):
    g = [0.0, -0.0, 1.0, -1.0, 0.5, -0.5, 1.5, 2.5, -2.5, 3.7, -3.7, 1e308, -1e308, 5e-324, 2.2250738585072014e-308,
         9007199254740992.0, 9007199254740993.0, 9007199254740991.0, 9.223372036854776e18, -9.223372036854776e18,
         9.223372036854775e18, 1.8446744073709552e19, 0.1, 1e21, 1e-5, 123456.789, "+Inf", "-Inf", "NaN"]
    if not quick:
        g += [1e300, -1e-300, 3.0, -3.0, 1e15 + 0.5, 4503599627370496.5, 2.0 ** 62, -(2.0 ** 62), 1.0000000000000002, 6.02e23, 7.0, 1e16]
    return g


def ftext(x):
    if isinstance(x, str):
        return x
    if isinstance(x, float):
        return repr(x)
    return str(x)


def fval(x):
    if x == "+Inf":
        return float("inf")
    if x == "-Inf":
        return float("-inf")
    if x == "NaN":
        return float("nan")
    return x


PRELUDE = ('func f(x) { if (x == "NaN") { z = 0.0; return z / z } elif (x == "+Inf") { z = 0.0; return 1.0 / z } '
           'elif (x == "-Inf") { z = 0.0; return -1.0 / z } else { return x } } ')

BIN_OPS = ["+", "-", "*", "/", "//", "%", "**", ".+", ".-", ".*", "./", "&", "|", "^", "<<", ">>", ">>>", "min", "max", "roundm"]
INT_ONLY = {".+", ".-", ".*", "./", "&", "|", "^", "<<", ">>", ">>>"}
UN_OPS = ["neg", "pos", "~", "abs", "ceil", "floor", "round", "sgn", "bitcount"]
MOD_OPS = ["madd", "msub", "mmul", "mexp"]


def expr2(op, a="f($a)", b="f($b)"):
    if op in ("min", "max", "roundm"):
        return "%s(%s, %s)" % (op, a, b)
    return "(%s) %s (%s)" % (a, op, b)


def expr1(op, a="f($a)"):
    if op == "neg":
        return "-(%s)" % a
    if op == "pos":
        return "+(%s)" % a
    if op == "~":
        return "~(%s)" % a
    return "%s(%s)" % (op, a)


def near_boundary(v):
    if isinstance(v, str):
        return True
    if isinstance(v, float):
        return v != v or math.isinf(v) or abs(v) >= 2.0 ** 53 or v == 0 or abs(v) < 1e-300
    return abs(v) <= 1024 or abs(abs(v) - M63) <= 1024 or abs(abs(v) - 2 ** 64) <= 1024


def model_cell(op, vals):
    """vals: tuple of Python ints/floats. Returns acceptable outcomes."""
    if len(vals) == 3:
        return mn.modop(op, *vals)
    if len(vals) == 1:
        (a,) = vals
        if isinstance(a, int):
            return mn.int_unop(op, a)
        if op in ("~", "bitcount"):
            return [("error", None)]
        return mn.float_unop(op, a)
    a, b = vals
    if isinstance(a, int) and isinstance(b, int):
        return mn.int_binop(op, a, b)
    if op in (".+", ".-", ".*", "./"):
        # dot operators on floats: plain IEEE arithmetic ("integer-to-integer overflow" only concerns ints)
        if op == "./":
            if float(b) == 0:
                return mn.ANY
            return [("float", float(a) / float(b))]
        return mn.float_binop(op[1], a, b)
    if op in INT_ONLY:
        return [("error", None)]
    if op == "roundm":
        fa, fb = float(a), float(b)
        if fb == 0 or fa != fa or fb != fb or math.isinf(fa) or math.isinf(fb):
            return mn.ANY
        q = fa / fb
        if math.isinf(q) or abs(q) > 2 ** 52:
            return [("float", None)]
        cands = {math.floor(q) * fb, math.ceil(q) * fb}
        fr = q - math.floor(q)
        if abs(fr - 0.5) > 1e-9:
            cands = {(math.floor(q) if fr < 0.5 else math.ceil(q)) * fb}
        return [("float~", c) for c in cands]
    return mn.float_binop(op, a, b)


def exact_overflows(op, vals):
    try:
        if len(vals) == 2 and all(isinstance(v, int) for v in vals):
            a, b = vals
            r = {"+": a + b, "-": a - b, "*": a * b}.get(op)
            if r is None and op == "**" and 0 <= b <= 64:
                r = a ** b
            if r is None and op in ("/", "//") and b != 0:
                r = a // b
            return r is not None and not mn.fits(r)
    except Exception:
        pass
    return False


def run_rows(ctx, ops, rows, arity, label):
    """rows: list of tuples of operand *texts or numbers*. One invocation for all ops; on a crash, per-op
    invocations and bisection."""
    names = ["a", "b", "c"][:arity]
    data = "".join(",".join("%s=%s" % (n, ftext(v)) for n, v in zip(names, row)) + "\n" for row in rows).encode()

    def prog_for(oplist):
        parts = []
        for i, op in enumerate(oplist):
            if arity == 1:
                e = expr1(op)
            elif arity == 2:
                e = expr2(op)
            else:
                e = "%s(f($a), f($b), f($c))" % op
            parts.append("$t%d = typeof(%s); $r%d = %s" % (i, e, i, e))
        return PRELUDE + "; ".join(parts)

    def invoke(oplist, d):
        return ctx.mlr(["--idkvp", "--otsv", "--records-per-batch", "500", "put", "-q",
                        prog_for(oplist) + "; emit mapexcept($*, " + ",".join('"%s"' % n for n in names) + ")"], stdin=d, timeout=120)

    def judge(oplist, res, rws):
        lines = res.out.decode("utf-8", "replace").split("\n")
        if lines and lines[-1] == "":
            lines.pop()
        if not lines:
            ctx.fail({"ops": oplist, "rows": [list(map(ftext, r)) for r in rws[:3]], "arity": arity}, "no output rc=%s err=%s" % (res.rc, res.err[:300]))
            return
        hdr = lines[0].split("\t")
        body = lines[1:]
        if len(body) != len(rws):
            ctx.fail({"ops": oplist, "rows": [list(map(ftext, r)) for r in rws[:3]], "arity": arity},
                     "row count mismatch: %d rows in, %d out; rc=%s err=%s" % (len(rws), len(body), res.rc, res.err[:300]))
            return
        for row, ln in zip(rws, body):
            cols = dict(zip(hdr, ln.split("\t")))
            vals = tuple(fval(v) for v in row)
            for i, op in enumerate(oplist):
                typ = cols.get("t%d" % i, "absent")
                txt = cols.get("r%d" % i, "")
                acc = model_cell(op, vals)
                nt = any(near_boundary(v) for v in vals) or exact_overflows(op, vals)
                key = (op,) + tuple(ftext(v) for v in row)
                ctx.case(hash(key) & 0xFFFFFFFFFFFF, nt, labels=("underdetermined",) if len(acc) > 1 else (),
                         sample={"op": op, "operands": [ftext(v) for v in row], "typeof": typ, "value": txt} if (nt and len(ctx.samples) < 4 and op in ("*", "//", "mexp", "abs")) else None)
                if not mn.outcome_matches(acc, typ, txt):
                    case = {"op": op, "operands": [ftext(v) for v in row], "arity": arity}
                    ctx.fail(case, "%s%s: mlr gives typeof=%s value=%s; model accepts %s" % (
                        op, tuple(ftext(v) for v in row), typ, txt, [(k, (mn.fmtf(v) if isinstance(v, float) else v)) for k, v in acc][:4]))

    res = invoke(ops, data)
    if res.rc == 0 and not res.timed_out and not res.panicked:
        judge(ops, res, rows)
        return
    # something died: go per operator, bisect rows
    for op in ops:
        try:
            r1 = invoke([op], data)
            if r1.rc == 0 and not r1.timed_out and not r1.panicked:
                judge([op], r1, rows)
                continue
            live = list(rows)
            for _attempt in range(30):
                lo, hi = 0, len(live)
                # find smallest prefix that fails
                while hi - lo > 1:
                    mid = (lo + hi) // 2
                    d = "".join(",".join("%s=%s" % (n, ftext(v)) for n, v in zip(names, row)) + "\n" for row in live[:mid]).encode()
                    rr = invoke([op], d)
                    if rr.rc == 0 and not rr.timed_out and not rr.panicked:
                        lo = mid
                    else:
                        hi = mid
                bad = live[hi - 1]
                d = ",".join("%s=%s" % (n, ftext(v)) for n, v in zip(names, bad)).encode() + b"\n"
                rr = invoke([op], d)
                case = {"op": op, "operands": [ftext(v) for v in bad], "arity": arity}
                what = "hangs" if rr.timed_out else ("panics" if rr.panicked else "exits %s" % rr.rc)
                ctx.case(hash((op,) + tuple(case["operands"])) & 0xFFFFFFFFFFFF, True, labels=("crash-row",))
                ctx.fail(case, "%s%s %s: %s" % (op, tuple(case["operands"]), what, rr.err[:600].decode("utf-8", "replace")))
                # known finding: drop the row and go on
                live = live[:hi - 1] + live[hi:]
                d = "".join(",".join("%s=%s" % (n, ftext(v)) for n, v in zip(names, row)) + "\n" for row in live).encode()
                r1 = invoke([op], d)
                if r1.rc == 0 and not r1.timed_out and not r1.panicked:
                    judge([op], r1, live)
                    break
            else:
                ctx.note("operator %s: more than 30 crashing rows in one shard; remaining rows unjudged" % op)
        except Violation as v:
            ctx.violations.append({"sub": ctx.sub, "case": v.case, "message": v.message})


def replay_cell(ctx, case):
    ops = [case["op"]]
    row = tuple(_parse_operand(x) for x in case["operands"])
    run_rows(ctx, ops, [row], case["arity"], "replay")


def _parse_operand(x):
    if x in ("+Inf", "-Inf", "NaN"):
        return x
    try:
        return int(x)
    except ValueError:
        return float(x)


def _shard(seq, ctx):
    return [x for i, x in enumerate(seq) if i % ctx.nshards == ctx.shard]


def sub_grid_ii(ctx):
    g = grid_ints(ctx.quick)
    mine = _shard(g, ctx)
    rows = [(a, b) for a in mine for b in g]
    for i in range(0, len(rows), 6000):
        run_rows(ctx, BIN_OPS, rows[i:i + 6000], 2, "ii")


def sub_grid_float(ctx):
    gi = [x for x in grid_ints(True) if abs(x) < 2 ** 20 or abs(abs(x) - M63) < 3 or abs(abs(x) - 2 ** 53) < 3][:60]
    gf = grid_floats(ctx.quick)
    rows = [(a, b) for a in gf for b in gf] + [(a, b) for a in gi for b in gf] + [(a, b) for a in gf for b in gi]
    rows = _shard(rows, ctx)
    for i in range(0, len(rows), 4000):
        run_rows(ctx, BIN_OPS, rows[i:i + 4000], 2, "float")


def sub_unary(ctx):
    rows = [(a,) for a in grid_ints(False)] + [(a,) for a in grid_floats(False)]
    rows = _shard(rows, ctx)
    run_rows(ctx, UN_OPS, rows, 1, "unary")


def sub_modular(ctx):
    g = [0, 1, -1, 2, 3, 5, 7, 10, 12, 97, 1000000007, 2 ** 31 - 1, 2 ** 32, 2 ** 62, M63 - 1, -M63, -5, -97, 3037000500, 2 ** 63 - 25]
    if not ctx.quick:
        g += [4, 6, 64, 2 ** 61 - 1, 2 ** 53 + 1, -(2 ** 62), 4294967291, 9223372036854775783, -2, 1024]
    mods = g
    rows = [(a, b, m) for a in g for b in g for m in mods]
    rows = _shard(rows, ctx)
    for i in range(0, len(rows), 6000):
        run_rows(ctx, MOD_OPS, rows[i:i + 6000], 3, "mod")


INT64 = st.integers(-M63, M63 - 1)
NEAR = st.builds(lambda base, d: max(-M63, min(M63 - 1, base + d)),
                 st.sampled_from([0, M63 - 1, -M63, 2 ** 32, -2 ** 32, 2 ** 31, 2 ** 53, -2 ** 53, 3037000500, -3037000500, 2 ** 62, -2 ** 62]),
                 st.integers(-2000, 2000))
SMALL = st.integers(-70, 70)
ANYINT = st.one_of(INT64, NEAR, SMALL, st.integers(-10 ** 6, 10 ** 6))
ANYFLOAT = st.one_of(st.floats(allow_nan=False, allow_infinity=False), st.floats(-1e6, 1e6), st.sampled_from([0.0, -0.0, 0.5, 1e308, -1e308]),
                     st.integers(-2 ** 53, 2 ** 53).map(float))
ANYNUM = st.one_of(ANYINT, ANYINT, ANYFLOAT)


def sub_random(ctx):
    strat = st.lists(st.tuples(ANYNUM, ANYNUM), min_size=40, max_size=40)

    def body(rows):
        rows = [tuple(_parse_operand(x) if isinstance(x, str) else x for x in r) for r in rows]
        run_rows(ctx, BIN_OPS, rows, 2, "random")

    def body_case(case):
        if isinstance(case, dict):
            return replay_cell(ctx, case)
        return body(case)

    ctx.hyp(strat, body_case, ctx.n(150, 1500))
    strat3 = st.lists(st.tuples(ANYINT, ANYINT, st.one_of(st.integers(1, M63 - 1), st.integers(1, 1000), NEAR)), min_size=40, max_size=40)

    def body3(case):
        if isinstance(case, dict):
            return replay_cell(ctx, case)
        run_rows(ctx, MOD_OPS, case, 3, "random3")

    ctx.hyp(strat3, body3, ctx.n(60, 600))
    strat1 = st.lists(st.tuples(ANYNUM), min_size=40, max_size=40)

    def body1(case):
        if isinstance(case, dict):
            return replay_cell(ctx, case)
        run_rows(ctx, UN_OPS, case, 1, "random1")

    ctx.hyp(strat1, body1, ctx.n(30, 300))


def sub_literals(ctx):
    """Operands written as DSL literals (constant folding / literal scanning path)."""
    g = [0, 1, -1, 7, -7, M63 - 1, -M63 + 1, 2 ** 62, -2 ** 62, 3037000500, 2 ** 32, 10, 3, -3, 2, 64, 63]
    ops = ["+", "-", "*", "/", "//", "%", "**", ".+", ".*", "&", "|", "^", "<<", ">>", ">>>"]
    cells = [(op, a, b) for op in ops for a in g for b in g]
    cells = _shard(cells, ctx)
    lines = []
    for op, a, b in cells:
        e = "(%d) %s (%d)" % (a, op, b)
        lines.append('print typeof(%s) . "\\t" . (%s);' % (e, e))
    for i in range(0, len(cells), 400):
        chunk = cells[i:i + 400]
        prog = "end{" + "".join(lines[i:i + 400]) + "}"
        res = ctx.mlr(["-n", "put", prog], timeout=60)
        out = res.out.decode("utf-8", "replace").split("\n")
        if res.rc != 0 or res.panicked or len(out) - 1 != len(chunk):
            # locate
            for (op, a, b) in chunk:
                e = "(%d) %s (%d)" % (a, op, b)
                r1 = ctx.mlr(["-n", "put", 'end{print typeof(%s) . "\\t" . (%s);}' % (e, e)], timeout=20)
                ctx.case(("lit", op, a, b), True)
                if r1.rc != 0 or r1.panicked or r1.timed_out:
                    if not ctx.guard(ctx.fail, {"op": op, "operands": [str(a), str(b)], "arity": 2, "literal": True},
                                     "literal %s: rc=%s %s" % (e, r1.rc, r1.err[:400].decode("utf-8", "replace"))):
                        return
                else:
                    typ, _, txt = r1.out.decode().rstrip("\n").partition("\t")
                    if not mn.outcome_matches(mn.int_binop(op, a, b), typ, txt):
                        if not ctx.guard(ctx.fail, {"op": op, "operands": [str(a), str(b)], "arity": 2, "literal": True},
                                         "literal %s: typeof=%s value=%s model=%s" % (e, typ, txt, mn.int_binop(op, a, b))):
                            return
            continue
        for (op, a, b), ln in zip(chunk, out):
            typ, _, txt = ln.partition("\t")
            ctx.case(("lit", op, a, b), near_boundary(a) or near_boundary(b))
            if not mn.outcome_matches(mn.int_binop(op, a, b), typ, txt):
                if not ctx.guard(ctx.fail, {"op": op, "operands": [str(a), str(b)], "arity": 2, "literal": True},
                                 "literal (%d) %s (%d): typeof=%s value=%s model=%s" % (a, op, b, typ, txt, mn.int_binop(op, a, b))):
                    return


def replay_literal_or_cell(ctx, case):
    if case.get("literal"):
        op = case["op"]
        a, b = int(case["operands"][0]), int(case["operands"][1])
        e = "(%d) %s (%d)" % (a, op, b)
        r1 = ctx.mlr(["-n", "put", 'end{print typeof(%s) . "\\t" . (%s);}' % (e, e)], timeout=20)
        if r1.rc != 0 or r1.panicked or r1.timed_out:
            ctx.fail(case, "literal %s: rc=%s %s" % (e, r1.rc, r1.err[:400].decode("utf-8", "replace")))
        typ, _, txt = r1.out.decode().rstrip("\n").partition("\t")
        if not mn.outcome_matches(mn.int_binop(op, a, b), typ, txt):
            ctx.fail(case, "literal %s: typeof=%s value=%s model=%s" % (e, typ, txt, mn.int_binop(op, a, b)))
    else:
        replay_cell(ctx, case)


SUBCHECKS = [
    Sub("grid_int_int", sub_grid_ii, replay_cell, shards={"quick": 8, "thorough": 16}, exhaustive=True, cost=5,
        rule="boundary grid x grid x 20 binary operators, exhaustive; non-trivial as in RULE"),
    Sub("grid_float_mixed", sub_grid_float, replay_cell, shards={"quick": 2, "thorough": 4}, exhaustive=True, cost=2,
        rule="float grid (incl. +-0, +-Inf, NaN, 2^53+-1, subnormal) squared and crossed with ints, exhaustive"),
    Sub("unary", sub_unary, replay_cell, shards={"quick": 1, "thorough": 1}, exhaustive=True,
        rule="full int and float grids through unary - + ~ abs ceiling floor round sgn bitcount"),
    Sub("modular", sub_modular, replay_cell, shards={"quick": 2, "thorough": 8}, exhaustive=True, cost=2,
        rule="grid^3 through madd msub mmul mexp vs Python pow()/%"),
    Sub("random", sub_random, replay_cell, shards={"quick": 3, "thorough": 16}, cost=3,
        rule="Hypothesis int64/float64 operands (uniform, near-boundary, small), 40 rows per example"),
    Sub("literals", sub_literals, replay_literal_or_cell, shards={"quick": 1, "thorough": 2}, exhaustive=True,
        rule="operands as parenthesised DSL literals in an end block"),
]


# --------------------------------------------------------------------------------------------
# known findings (predicates + pinned probes); entries are activated by /verif/known_findings.json

def _val(mlr, expr):
    r = mlr(["-n", "put", "end{print typeof(%s).\":\".(%s)}" % (expr, expr)], timeout=20)
    return r


KNOWN = {}
