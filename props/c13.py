"""C13 - join pairs exactly the matching records and accounts for every record once."""
import collections
import json
import os

from hypothesis import strategies as st

from vlib.core import Sub
from vlib import run as vrun

LEVEL = "exploration"
RULE = ("Hypothesis: left file and right stream of 0-10 records each, join values from 1-5 texts incl. empty, duplicates on both sides, records "
        "lacking a join field, colliding non-join names, 1-2 join fields, options -j/-l/-r, --lp/--rp, --lk, --np/--ul/--ur, --ignore-empty, -u/-s, "
        "empty right stream; oracle = nested-loop reference join (sequence for paired + unpaired-right, multiset for unpaired-left) and the "
        "accounting laws; non-trivial = a key with >=2 lefts and >=2 rights, or an unpaired record on each side")
ASSUMPTIONS = ["the nested-loop model transcribes the statement and `mlr join --help`"]

KV = ["1", "2", "3", "", "x", "10"]
OTHER = ["p", "q", "r"]


@st.composite
def recs(draw, side, nj, keyless_ok=True, kvs=KV):
    n = draw(st.integers(0, 10))
    out = []
    for i in range(n):
        r = []
        fields = ["id", "k1", "a", "b"] + (["k2"] if nj == 2 else [])
        order = draw(st.permutations(fields))
        for f in order:
            if f == "id":
                r.append(["id" + side, side + str(i)])
            elif f in ("k1", "k2"):
                if not keyless_ok or draw(st.integers(0, 6)) > 0:
                    r.append([f + ("l" if side == "L" else "r"), draw(st.sampled_from(kvs))])
            else:
                if draw(st.booleans()):
                    r.append([f, draw(st.sampled_from(OTHER))])
        out.append(r)
    return out


@st.composite
def case_strategy(draw):
    nj = draw(st.sampled_from([1, 1, 2]))
    L = draw(recs("L", nj))
    R = draw(recs("R", nj)) if draw(st.integers(0, 7)) > 0 else []
    o = {"np": draw(st.booleans()), "ul": draw(st.booleans()), "ur": draw(st.booleans()),
         "lp": draw(st.sampled_from([None, "l_"])), "rp": draw(st.sampled_from([None, "r_"])),
         "ie": draw(st.booleans()), "jnames": draw(st.sampled_from(["l", "r", "K"])), "nj": nj,
         "lk": draw(st.sampled_from([None, None, "a", ""])), "rpb": draw(st.sampled_from([None, 1, 2]))}
    if o["np"] and not (o["ul"] or o["ur"]):
        o["ur"] = True
    return {"L": L, "R": R, "o": o}


def names(o):
    nj = o["nj"]
    ln = ["k%dl" % (i + 1) for i in range(nj)]
    rn = ["k%dr" % (i + 1) for i in range(nj)]
    jn = {"l": ln, "r": rn, "K": ["K%d" % (i + 1) for i in range(nj)]}[o["jnames"]]
    return ln, rn, jn


def model(L, R, o):
    lp = o["lp"] or ""
    rp = o["rp"] or ""
    ln, rn, jn = names(o)
    lk = o.get("lk")

    def keyof(r, nm):
        d = dict(r)
        if not all(n in d for n in nm):
            return None
        vals = tuple(d[n] for n in nm)
        if o["ie"] and any(v == "" for v in vals):
            return None
        return vals

    def put(out, k, v):
        for p in out:
            if p[0] == k:
                p[1] = v
                return
        out.append([k, v])

    def keepleft(l):
        if lk is None:
            return l
        keep = set(ln) | ({x for x in lk.split(",") if x})
        return [p for p in l if p[0] in keep]

    def ren(r, keynames, prefix):
        # unpaired: join fields renamed to output names, others prefixed
        out = []
        mp = dict(zip(keynames, jn))
        for k, v in r:
            if k in mp:
                put(out, mp[k], v)
            else:
                put(out, prefix + k, v)
        return out
    buckets = collections.OrderedDict()
    lunp = []
    for l in L:
        l = keepleft(l)
        k = keyof(l, ln)
        if k is None:
            lunp.append(l)
        else:
            buckets.setdefault(k, []).append(l)
    paired = set()
    seq = []
    for r in R:
        k = keyof(r, rn)
        if k is not None and k in buckets:
            paired.add(k)
            if not o["np"]:
                for l in buckets[k]:
                    out = []
                    for n, v in zip(jn, k):
                        put(out, n, v)
                    for kk, v in l:
                        if kk not in ln:
                            put(out, lp + kk, v)
                    for kk, v in r:
                        if kk not in rn:
                            put(out, rp + kk, v)
                    seq.append(out)
        elif o["ur"]:
            seq.append(ren(r, rn, rp))
    tail = []
    if o["ul"]:
        for k, ls in buckets.items():
            if k not in paired:
                for l in ls:
                    tail.append(ren(l, ln, lp))
        for l in lunp:
            tail.append(ren(l, ln, lp))
    return seq, tail


def jtext(rs):
    return "[" + ",\n".join("{" + ", ".join("%s: %s" % (json.dumps(k), json.dumps(v)) for k, v in r) + "}" for r in rs) + "]\n"


def run_join(ctx, case, L, R, o, extra=()):
    d = vrun.newdir("j")
    lf = os.path.join(d, "left.json")
    with open(lf, "w") as f:
        f.write(jtext(L))
    ln, rn, jn = names(o)
    args = (["--records-per-batch", str(o["rpb"])] if o.get("rpb") else []) + ["--ijson", "--ojsonl", "join"] + list(extra) + ["-f", lf, "-j", ",".join(jn), "-l", ",".join(ln), "-r", ",".join(rn)]
    if o["np"]:
        args.append("--np")
    if o["ul"]:
        args.append("--ul")
    if o["ur"]:
        args.append("--ur")
    if o["lp"] is not None:
        args += ["--lp", o["lp"]]
    if o["rp"] is not None:
        args += ["--rp", o["rp"]]
    if o["ie"]:
        args.append("--ignore-empty")
    if o.get("lk") is not None:
        args += ["--lk", o["lk"]]
    res = ctx.mlr(args, stdin=jtext(R).encode())
    if res.rc != 0 or res.panicked:
        ctx.fail(case, "join failed rc=%s: %s" % (res.rc, res.err[:300].decode("utf-8", "replace")))
    got = [json.loads(l, object_pairs_hook=lambda ps: [list(p) for p in ps]) for l in res.out.decode("utf-8").splitlines()]
    return got, args


def canon(r):
    return json.dumps(r)


def body(ctx, case):
    L, R, o = case["L"], case["R"], case["o"]
    got, args = run_join(ctx, case, L, R, o)
    seq, tail = model(L, R, o)
    g1, g2 = got[:len(seq)], got[len(seq):]
    if [canon(x) for x in g1] != [canon(x) for x in seq]:
        i = next((i for i, (a, b) in enumerate(zip(g1, seq)) if a != b), min(len(g1), len(seq)))
        ctx.fail(case, "paired/unpaired-right sequence differs at output %d: expected %r got %r (expected %d records, got %d; args %r)" % (
            i, seq[i] if i < len(seq) else None, g1[i] if i < len(g1) else None, len(seq) + len(tail), len(got), args[2:]))
    if collections.Counter(canon(x) for x in g2) != collections.Counter(canon(x) for x in tail):
        ctx.fail(case, "unpaired-left multiset differs: expected %r got %r (args %r)" % (tail[:4], g2[:4], args[2:]))
    # accounting law: with --ul --ur (no --lk), every input id appears exactly once
    if o["ul"] and o["ur"] and not o["np"] and o.get("lk") is None:
        idsL = collections.Counter()
        idsR = collections.Counter()
        for g in got:
            for k, v in g:
                if k.endswith("idL"):
                    idsL[v] += 1
                if k.endswith("idR"):
                    idsR[v] += 1
        # a left record pairs with each matching right record, so count presence, not multiplicity, for paired ones
        for l in L:
            if idsL[dict(l)["idL"]] < 1:
                ctx.fail(case, "left record %s missing from --ul --ur output" % dict(l)["idL"])
        for r in R:
            if idsR[dict(r)["idR"]] < 1:
                ctx.fail(case, "right record %s missing from --ul --ur output" % dict(r)["idR"])
    ln, rn, jn = names(o)
    lkeys = collections.Counter(tuple(dict(l).get(n) for n in ln) for l in L)
    rkeys = collections.Counter(tuple(dict(r).get(n) for n in rn) for r in R)
    nt = any(lkeys[k] >= 2 and rkeys.get(k, 0) >= 2 and None not in k for k in lkeys) or (bool(tail) and any(not any(dict(r).get(n) is None for n in rn) for r in R) and len(seq) > 0)
    ctx.case(case, bool(nt), labels=("empty-right" if not R else "right>0", "nj%d" % o["nj"], "ul" if o["ul"] else "no-ul"),
             sample={"args": args[2:], "L": L[:2], "R": R[:2]} if nt else None)


@st.composite
def sorted_case(draw):
    nj = draw(st.sampled_from([1, 1, 2]))
    kvs = ["a", "b", "c", "d", "e"]
    L = draw(recs("L", nj, kvs=kvs))
    R = draw(recs("R", nj, kvs=kvs)) if draw(st.integers(0, 7)) > 0 else []
    o = {"np": draw(st.booleans()), "ul": draw(st.booleans()), "ur": draw(st.booleans()), "lp": None, "rp": None, "ie": False,
         "jnames": draw(st.sampled_from(["l", "K"])), "nj": nj, "lk": None, "rpb": draw(st.sampled_from([None, 1, 2]))}
    if o["np"] and not (o["ul"] or o["ur"]):
        o["ul"] = True
    if not (o["ul"] or o["ur"] or not o["np"]):
        o["ul"] = True
    # sort keyed records lexically by join key; key-less ones keep a random position
    def arrange(rs, nm):
        keyed = [r for r in rs if all(n in dict(r) for n in nm)]
        keyless = [r for r in rs if not all(n in dict(r) for n in nm)]
        keyed.sort(key=lambda r: tuple(dict(r)[n] for n in nm))
        out = list(keyed)
        for r in keyless:
            out.insert(draw(st.integers(0, len(out))), r)
        return out
    ln = ["k%dl" % (i + 1) for i in range(nj)]
    rn = ["k%dr" % (i + 1) for i in range(nj)]
    return {"L": arrange(L, ln), "R": arrange(R, rn), "o": o}


def body_sorted(ctx, case):
    L, R, o = case["L"], case["R"], case["o"]
    gu, args = run_join(ctx, case, L, R, o, extra=["-u"])
    gs, args2 = run_join(ctx, case, L, R, o, extra=["-s"])
    cu = collections.Counter(canon(x) for x in gu)
    cs = collections.Counter(canon(x) for x in gs)
    if cu != cs:
        only_u = list((cu - cs).elements())[:3]
        only_s = list((cs - cu).elements())[:3]
        ctx.fail(case, "-s and -u give different multisets on sorted input: only in -u %r; only in -s %r (args %r)" % (only_u, only_s, args2[2:]))
    seq, tail = model(L, R, o)
    if collections.Counter(canon(x) for x in seq + tail) != cs:
        ctx.fail(case, "-s output differs from the reference join as a multiset (args %r)" % (args2[2:],))
    ln, rn, jn = names(o)
    keyless_inside = any(not all(n in dict(r) for n in ln) for r in L[1:-1]) if len(L) > 2 else False
    ctx.case(case, len(gu) >= 2, labels=("keyless-left-inside" if keyless_inside else "no-keyless-inside", "ul" if o["ul"] else "no-ul"))


def sub_unsorted(ctx):
    ctx.hyp(case_strategy(), lambda c: body(ctx, c), ctx.n(2700, 24000))


def sub_sorted(ctx):
    ctx.hyp(sorted_case(), lambda c: body_sorted(ctx, c), ctx.n(1200, 10000))


SUBCHECKS = [
    Sub("unsorted_vs_model", sub_unsorted, body, shards={"quick": 6, "thorough": 16}, cost=3, rule="nested-loop reference join; see RULE"),
    Sub("sorted_equals_unsorted", sub_sorted, body_sorted, shards={"quick": 4, "thorough": 8}, cost=2,
        rule="inputs sorted lexically by join key with key-less records at random positions: -s multiset == -u multiset == reference"),
]

KNOWN = {}
