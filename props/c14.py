"""C14 - put/filter programs mean what the language reference says."""
import json
import os
import re

from hypothesis import strategies as st

from vlib.core import Sub
from vlib import model_dsl as md
from vlib import run as vrun
from vlib.model_dsl import MMap

LEVEL = "exploration"
RULE = ("Hypothesis, grammar-directed: type-directed random programs over the covered language (see DESIGN.md C14) rendered to Miller text and run through `mlr --ijson --ojsonl put/filter` "
        "on 0-6 generated records; stdout (records and printed lines, in order) must equal the output of an independent Python reference interpreter written from the documentation; programs "
        "the interpreter predicts to stop with a documented fatal error must exit non-zero; parse shapes of operator expressions must match the documented precedence table; "
        "metamorphic relations (emit-by-names == grouping verb, filter == put filter, alpha-renaming, block wrapping, put A then put B); "
        "non-trivial = the program contains a control structure or call and produces output that differs from the input")
ASSUMPTIONS = ["the reference interpreter is a second implementation written from docs/src/reference-dsl-*.md and reference-main-{maps,arrays,null-data}.md; constructs whose outcome the documentation does not determine "
               "raise Unmodelled and the case is discarded and counted"]

WORDS = ["pan", "eks", "wye", "zee", "hat", "a b", "x", "Q"]
FIELDS = {"i": "int", "j": "int?", "s": "str", "t": "str?"}   # '?' = may be missing from a record
LOCALS = ["a", "b", "c", "d", "e", "g", "h"]


class Gen(object):
    """Type-directed program generator. Static types: int str bool map (str->int) arr (of int) nmap (str->str->int) any."""

    def __init__(self, draw, features):
        self.draw = draw
        self.frames = [{}]            # static scopes of the current activation: name -> type
        self.tag = 0
        self.funcs = {}               # name -> (param types, return type)
        self.subrs = {}
        self.in_main = True           # record access allowed
        self.loop_depth = 0
        self.in_func = None           # return type when inside a function body
        self.labels = set()
        self.features = features
        self.counter = 0
        self.oos_types = {}           # oosvar name -> type (accumulators created by the program)
        self.rec_dirty = False        # a statement that can remove or rename input fields has been generated
        self.seen_names = set()

    # ---- helpers
    def i(self, lo, hi):
        return self.draw(st.integers(lo, hi))

    def pick(self, xs):
        return xs[self.draw(st.integers(0, len(xs) - 1))]

    def chance(self, pct):
        return self.draw(st.integers(0, 99)) < pct

    def lookup(self, name):
        for f in reversed(self.frames):
            if name in f:
                return f[name]
        return None

    def visible(self, typ, read=False):
        """names in scope with the given static type; read=True also offers read-only loop counters"""
        out = []
        seen = set()
        for f in reversed(self.frames):
            for n, t in f.items():
                if n not in seen:
                    seen.add(n)
                    if t == typ or (read and t == "ro-" + typ):
                        out.append(n)
        return out

    def fresh_tag(self):
        self.tag += 1
        return "T%d:" % self.tag

    # ---- expressions
    def expr(self, typ, d=0):
        return getattr(self, "e_" + typ)(d)

    def e_int(self, d):
        opts = ["lit", "lit"]
        if self.visible("int", True):
            opts += ["local", "local", "local"]
        if self.in_main:
            opts += ["field", "field", "ctx"]
        if d < 3:
            opts += ["bin", "bin", "bin", "tern", "strlen", "length", "minmax", "neg"]
            if self.visible("arr"):
                opts += ["aidx"]
            if self.visible("map"):
                opts += ["midx"]
            fs = [n for n, (pt, rt) in self.funcs.items() if rt == "int"]
            if fs and self.in_func is None:
                opts += ["call", "call"]
            if self.oos_types.get("count") == "int":
                opts += ["oos"]
            if "hof" in self.features:
                opts += ["fold"]
        k = self.pick(opts)
        if k == "fold":
            self.labels.add("hof")
            op = self.pick(["+", "-", "*"])
            if self.chance(50):
                return ("call", "fold", [self.e_arr(d + 1), ("funclit", ["acc", "x"], [("return", ("bin", op, ("local", "acc"), ("local", "x")))]), ("int", self.i(0, 3))])
            nonempty = ("arrlit", [self.e_int(d + 2) for _ in range(self.i(1, 4))])
            return ("call", "reduce", [nonempty, ("funclit", ["acc", "x"], [("return", ("bin", op, ("local", "acc"), ("local", "x")))])])
        if k == "lit":
            return ("int", self.i(-9, 20))
        if k == "local":
            return ("local", self.pick(self.visible("int", True)))
        if k == "field":
            n = self.pick(["i", "i", "j"])
            if FIELDS[n].endswith("?") or self.rec_dirty:
                return ("bin", "??", ("field", n), ("int", self.i(0, 5)))
            return ("field", n)
        if k == "ctx":
            return ("ctx", self.pick(["NR", "NR", "NF", "FNR"]))
        if k == "bin":
            op = self.pick(["+", "+", "-", "*", "//", "%", "&", "|", "^"])
            a = self.e_int(d + 1)
            if op in ("//", "%"):
                b = ("int", self.pick([1, 2, 3, 4, 7, -2, -3]))
            elif op == "*":
                b = ("int", self.i(-4, 6))
            else:
                b = self.e_int(d + 1)
            return ("bin", op, a, b)
        if k == "neg":
            return ("un", "-", self.e_int(d + 1))
        if k == "tern":
            return ("tern", self.e_bool(d + 1), self.e_int(d + 1), self.e_int(d + 1))
        if k == "strlen":
            return ("call", "strlen", [self.e_str(d + 1)])
        if k == "length":
            return ("call", self.pick(["length", "length", "depth", "leafcount"]), [self.expr(self.pick(["map", "arr"]), d + 1)])
        if k == "minmax":
            return ("call", self.pick(["min", "max"]), [self.e_int(d + 1), self.e_int(d + 1)])
        if k == "aidx":
            return ("bin", "??", ("index", ("local", self.pick(self.visible("arr"))), [("int", self.pick([1, 2, 3, -1, -2, 5, 9]))]), ("int", self.i(0, 3)))
        if k == "midx":
            return ("bin", "??", ("index", ("local", self.pick(self.visible("map"))), [("str", self.pick(WORDS[:4]))]), ("int", self.i(0, 3)))
        if k == "call":
            return self.call_func("int", d)
        if k == "oos":
            return ("bin", "??", ("oos", "count"), ("int", 0))
        raise AssertionError(k)

    def e_str(self, d):
        opts = ["lit", "lit"]
        if self.visible("str", True):
            opts += ["local", "local"]
        if self.in_main:
            opts += ["field", "field"]
        if d < 3:
            opts += ["dot", "dot", "upper", "tern", "typeof", "joink", "json", "fmtint"]
            fs = [n for n, (pt, rt) in self.funcs.items() if rt == "str"]
            if fs and self.in_func is None:
                opts += ["call"]
        k = self.pick(opts)
        if k == "lit":
            return ("str", self.pick(WORDS))
        if k == "local":
            return ("local", self.pick(self.visible("str", True)))
        if k == "field":
            n = self.pick(["s", "s", "t"])
            if FIELDS[n].endswith("?") or self.rec_dirty:
                return ("bin", "??", ("field", n), ("str", self.pick(WORDS[:3])))
            return ("field", n)
        if k == "dot":
            return ("bin", ".", self.e_str(d + 1), self.expr(self.pick(["str", "int"]), d + 1))
        if k == "upper":
            return ("call", self.pick(["toupper", "tolower", "capitalize"]), [self.e_str(d + 1)])
        if k == "tern":
            return ("tern", self.e_bool(d + 1), self.e_str(d + 1), self.e_str(d + 1))
        if k == "typeof":
            # not of a boolean: the name typeof gives booleans (bool/boolean) is not pinned, and here the name flows into further computation
            return ("call", "typeof", [self.e_any(d + 1, nobool=True)])
        if k == "joink":
            return ("call", "joink", [self.e_map(d + 1), ("str", ",")])
        if k == "json":
            return ("call", "json_stringify", [self.expr(self.pick(["map", "arr"]), d + 1)])
        if k == "fmtint":
            return ("bin", ".", ("str", self.pick(["n", "v="])), self.e_int(d + 1))
        if k == "call":
            return self.call_func("str", d)
        raise AssertionError(k)

    def e_bool(self, d):
        opts = ["cmp", "cmp", "cmp", "lit"]
        if self.visible("bool"):
            opts += ["local"]
        if d < 3:
            opts += ["and", "or", "not", "xor", "scmp", "isabsent", "haskey", "ispred"]
            if "hof" in self.features:
                opts += ["anyevery"]
        if self.in_main:
            opts += ["nr"]
        k = self.pick(opts)
        if k == "anyevery":
            self.labels.add("hof")
            return ("call", self.pick(["any", "every"]), [self.e_arr(d + 1), ("funclit", ["x"], [("return", ("bin", self.pick([">", "<=", "=="]), ("local", "x"), ("int", self.i(0, 5))))])])
        if k == "lit":
            return ("bool", self.chance(50))
        if k == "local":
            return ("local", self.pick(self.visible("bool")))
        if k == "cmp":
            return ("bin", self.pick(["<", "<=", ">", ">=", "==", "!="]), self.e_int(d + 1), self.e_int(d + 1))
        if k == "scmp":
            return ("bin", self.pick(["==", "!=", "<", ">="]), self.e_str(d + 1), ("str", self.pick(WORDS[:5])))
        if k == "and":
            return ("bin", "&&", self.e_bool(d + 1), self.e_bool(d + 1))
        if k == "or":
            return ("bin", "||", self.e_bool(d + 1), self.e_bool(d + 1))
        if k == "xor":
            return ("bin", "^^", self.e_bool(d + 1), self.e_bool(d + 1))
        if k == "not":
            return ("un", "!", self.e_bool(d + 1))
        if k == "isabsent":
            return ("call", self.pick(["is_absent", "is_present"]), [self.e_any(d + 1)])
        if k == "haskey":
            if self.chance(50):
                return ("call", "haskey", [self.e_map(d + 1), ("str", self.pick(WORDS[:4]))])
            return ("call", "haskey", [self.e_arr(d + 1), ("int", self.pick([1, 2, 3, -1, 0, 7]))])
        if k == "ispred":
            return ("call", self.pick(["is_map", "is_array", "is_string", "is_int", "is_empty", "is_not_empty"]), [self.e_any(d + 1)])
        if k == "nr":
            return ("bin", self.pick(["==", "<", ">="]), ("ctx", "NR"), ("int", self.i(1, 4)))
        raise AssertionError(k)

    def e_map(self, d):
        opts = ["lit", "lit"]
        if self.visible("map"):
            opts += ["local", "local", "local"]
        if d < 3:
            opts += ["mapsum", "mapdiff", "mapexcept"]
            if self.in_main:
                opts += ["srecsel"]
            fs = [n for n, (pt, rt) in self.funcs.items() if rt == "map"]
            if fs and self.in_func is None:
                opts += ["call", "call"]
            if self.visible("nmap"):
                opts += ["nidx"]
        k = self.pick(opts)
        if k == "lit":
            n = self.i(0, 3)
            keys = []
            for _ in range(n):
                kk = self.pick(WORDS[:6])
                if kk not in keys:
                    keys.append(kk)
            return ("maplit", [(("str", kk), self.e_int(d + 1)) for kk in keys])
        if k == "local":
            return ("local", self.pick(self.visible("map")))
        if k == "mapsum":
            return ("call", "mapsum", [self.e_map(d + 1), self.e_map(d + 1)])
        if k == "mapdiff":
            return ("call", "mapdiff", [self.e_map(d + 1), self.e_map(d + 1)])
        if k == "mapexcept":
            return ("call", self.pick(["mapexcept", "mapselect"]), [self.e_map(d + 1), ("str", self.pick(WORDS[:4]))])
        if k == "srecsel":
            return ("call", "mapselect", [("srec",), ("str", "i"), ("str", "j")])
        if k == "call":
            return self.call_func("map", d)
        if k == "nidx":
            return ("bin", "??", ("index", ("local", self.pick(self.visible("nmap"))), [("str", self.pick(WORDS[:3]))]), ("maplit", []))
        raise AssertionError(k)

    def e_arr(self, d):
        opts = ["lit", "lit"]
        if self.visible("arr"):
            opts += ["local", "local", "local"]
        if d < 3:
            opts += ["append", "slice", "values", "sort"]
            if "hof" in self.features:
                opts += ["apply", "select", "sortf"]
        k = self.pick(opts)
        if k == "lit":
            return ("arrlit", [self.e_int(d + 1) for _ in range(self.i(0, 4))])
        if k == "local":
            return ("local", self.pick(self.visible("arr")))
        if k == "append":
            return ("call", "append", [self.e_arr(d + 1), self.e_int(d + 1)])
        if k == "slice":
            base = ("local", self.pick(self.visible("arr"))) if self.visible("arr") else ("arrlit", [("int", self.i(0, 9)) for _ in range(self.i(1, 5))])
            lo, hi = self.pick([1, 2, 3, -2, -1, None]), self.pick([1, 2, 4, 9, -1, None])
            return ("slice", base, ("int", lo) if lo is not None else None, ("int", hi) if hi is not None else None)
        if k == "values":
            return ("call", "get_values", [self.e_map(d + 1)])
        if k == "sort":
            self.labels.add("hof")
            return ("call", "sort", [self.e_arr(d + 1)])
        if k == "sortf":
            self.labels.add("hof")
            return ("call", "sort", [self.e_arr(d + 1), ("funclit", ["x", "y"], [("return", ("bin", "<=>", ("local", "y"), ("local", "x")))])])
        if k == "apply":
            self.labels.add("hof")
            other = ("int", self.i(1, 3))
            outer = [n for n in self.visible("int", True) if n not in ("x", "y", "acc")]
            if outer and self.chance(50):
                # function literals can read the locals of their enclosing scope
                self.labels.add("funclit-reads-enclosing-local")
                other = ("local", self.pick(outer))
            return ("call", "apply", [self.e_arr(d + 1), ("funclit", ["x"], [("return", ("bin", self.pick(["+", "*", "-"]), ("local", "x"), other))])])
        if k == "select":
            self.labels.add("hof")
            return ("call", "select", [self.e_arr(d + 1), ("funclit", ["x"], [("return", ("bin", self.pick([">", "<=", "!="]), ("local", "x"), ("int", self.i(0, 5))))])])
        raise AssertionError(k)

    def e_nmap(self, d):
        if self.visible("nmap") and self.chance(60):
            return ("local", self.pick(self.visible("nmap")))
        outer = []
        for kk in WORDS[:self.i(1, 3)]:
            inner = [(("str", k2), self.e_int(d + 2)) for k2 in WORDS[3:3 + self.i(1, 2)]]
            outer.append((("str", kk), ("maplit", inner)))
        return ("maplit", outer)

    def e_any(self, d, nobool=False):
        opts = ["int", "str", "bool", "map", "arr", "stale", "stale"]
        if nobool:
            opts = ["int", "str", "map", "arr", "nosuchlocal"]
        if self.in_main:
            opts += ["maybe", "maybe", "nosuch"]
        k = self.pick(opts)
        if k == "nosuchlocal":
            return ("local", "zz")
        if k == "stale":
            # a name that may or may not be in scope here: out of scope reads are absent
            names = sorted(self.seen_names) or ["zz"]
            return ("local", self.pick(names))
        if k == "maybe":
            return ("field", self.pick(["j", "t"]))
        if k == "nosuch":
            return self.pick([("field", "nosuch"), ("oos", "nosuch"), ("index", ("srec",), [("str", "nosuch")])])
        return self.expr(k, d)

    def call_func(self, rt, d):
        name = self.pick([n for n, (pt, r) in self.funcs.items() if r == rt])
        pts, _ = self.funcs[name]
        self.labels.add("udf-call")
        return ("call", name, [self.expr(t, d + 1) if t != "bound" else ("int", self.i(0, 3)) for t in pts])

    # ---- statements
    def block(self, n_lo, n_hi, depth):
        self.frames.append({})
        try:
            return [s for _ in range(self.i(n_lo, n_hi)) for s in self.stmt(depth)]
        finally:
            self.frames.pop()

    def show(self, e, typ):
        """print statement with a unique tag"""
        tag = self.fresh_tag()
        if typ in ("map", "arr", "nmap"):
            return ("print", ("bin", ".", ("str", tag), ("call", "json_stringify", [e])))
        if typ == "any":
            return ("print", ("bin", ".", ("str", tag), ("call", "typeof", [e])))
        return ("print", ("bin", ".", ("str", tag), e))

    def stmt(self, depth):
        opts = ["decl", "decl", "assign_local", "assign_local", "print", "print", "newvar", "alias"]
        if self.in_main:
            opts += ["field", "field", "field", "oos", "oos", "unsetf", "posname", "emit1", "srec", "filter"]
        else:
            opts += ["oos"]
        if depth < 3:
            opts += ["if", "if", "forkv", "for3", "while", "indexed", "indexed", "fork"]
            if "multi" in self.features:
                opts += ["formulti", "formulti"]
            if self.subrs and self.in_func is None:
                opts += ["callsub"]
        if self.loop_depth > 0:
            opts += ["break", "continue"]
        if self.in_func is not None and depth > 0:
            opts += ["return"]
        if "no-output" in self.features:
            opts = [o for o in opts if o not in ("print", "oos", "emit1", "filter", "callsub")] or ["decl"]
        k = self.pick(opts)
        return getattr(self, "s_" + k)(depth)

    def s_decl(self, depth):
        typ = self.pick(["int", "str", "bool", "map", "arr", "int", "str", "nmap"])
        name = self.pick(LOCALS)
        if name in self.frames[-1]:
            if self.chance(4) and "fatal" in self.features:
                self.labels.add("fatal-redeclare")
                return [("decl", "var", name, ("int", 1))]
            return self.s_print(depth)
        kw = {"int": self.pick(["int", "num", "var"]), "str": self.pick(["str", "var"]), "bool": self.pick(["bool", "var"]), "map": self.pick(["map", "var"]),
              "arr": self.pick(["arr", "var"]), "nmap": self.pick(["map", "var"])}[typ]
        if self.lookup(name) is not None:
            self.labels.add("shadowing")
        e = self.expr(typ, 1)
        self.frames[-1][name] = typ
        self.seen_names.add(name)
        if kw != "var":
            self.labels.add("typed-decl")
        return [("decl", kw, name, e)]

    def s_newvar(self, depth):
        """undeclared first assignment: updates the nearest enclosing binding, else defines in the current block"""
        name = self.pick(LOCALS)
        t = self.lookup(name)
        if t is None:
            typ = self.pick(["int", "str", "bool", "map", "arr"])
            e = self.expr(typ, 1)
            self.frames[-1][name] = typ
            self.seen_names.add(name)
            self.labels.add("undeclared-define")
            return [("assign", ("local", name), e)]
        if t in ("int", "str", "bool", "map", "arr", "nmap"):
            self.labels.add("update-enclosing")
            return [("assign", ("local", name), self.expr(t, 1))]
        return self.s_print(depth)

    def s_assign_local(self, depth):
        cands = [(n, t) for t in ("int", "str", "bool", "map", "arr") for n in self.visible(t)]
        if not cands:
            return self.s_decl(depth)
        n, t = self.pick(cands)
        if self.chance(3) and "fatal" in self.features:
            other = {"int": "str", "str": "int", "bool": "int", "map": "int", "arr": "str"}[t]
            self.labels.add("maybe-type-violation")
            return [("assign", ("local", n), self.expr(other, 2))]
        if t == "int" and self.chance(40):
            return [("opassign", self.pick(["+", "-", "*", "//", "%", "|"]), ("local", n), ("int", self.pick([1, 2, 3, 5])))]
        if t == "str" and self.chance(40):
            return [("opassign", ".", ("local", n), self.e_str(2))]
        if t == "bool" and self.chance(40):
            return [("opassign", self.pick(["&&", "||", "^^"]), ("local", n), self.e_bool(2))]
        return [("assign", ("local", n), self.expr(t, 1))]

    def s_print(self, depth):
        typ = self.pick(["int", "str", "bool", "map", "arr", "any", "int", "str"])
        if typ in ("int", "str") and self.chance(15):
            # comma-separated arguments are joined by a space; printn leaves the line open for the next print
            self.labels.add("print-forms")
            if self.chance(50):
                return [("printm", [("str", self.fresh_tag()), self.expr(typ, 1), self.expr(self.pick(["int", "str"]), 2)])]
            return [("printn", ("bin", ".", ("str", self.fresh_tag()), self.expr(typ, 1))), ("print", ("str", "|end"))]
        return [self.show(self.expr(typ, 1), typ)]

    def s_field(self, depth):
        k = self.pick(["new", "new", "existing", "absent", "map", "opassign", "fieldx"])
        if k == "new":
            typ = self.pick(["int", "str", "bool"])
            self.labels.add("new-field")
            return [("assign", ("field", self.pick(["y", "z", "w", "new field"])), self.expr(typ, 1))]
        if k == "existing":
            self.labels.add("reassign-field")
            n = self.pick(["i", "s", "j", "t"])
            return [("assign", ("field", n), self.expr("int" if n in "ij" else "str", 1))]
        if k == "absent":
            self.labels.add("absent-rhs")
            return [("assign", ("field", self.pick(["y", "i", "q"])), self.pick([("field", "nosuch"), ("oos", "nosuch"), ("local", "zz"), ("field", "t")]))]
        if k == "map":
            self.labels.add("map-valued-field")
            return [("assign", ("field", self.pick(["m", "y"])), self.expr(self.pick(["map", "arr"]), 1))]
        if k == "opassign":
            return [("opassign", "+", ("field", "i"), self.e_int(2))] if self.chance(50) else [("opassign", ".", ("field", "s"), self.e_str(2))]
        if k == "fieldx":
            return [("assign", ("fieldx", ("bin", ".", ("str", "k"), self.e_int(2))), self.e_int(1))]
        raise AssertionError(k)

    def s_unsetf(self, depth):
        self.labels.add("unset")
        self.rec_dirty = True
        return [("unset", self.pick([("field", "j"), ("field", "s"), ("field", "nosuch"), ("fieldx", ("str", "t")), ("field", "i")]))]

    def s_posname(self, depth):
        self.labels.add("positional")
        self.rec_dirty = True
        n = self.pick([1, 2, 3, 9])
        if self.chance(50):
            return [("assign", ("posname", ("int", n)), ("str", self.pick(["p1", "p2", "renamed"])))]
        return [("assign", ("posval", ("int", n)), self.expr(self.pick(["int", "str"]), 2))]

    def s_srec(self, depth):
        k = self.pick(["assign", "assign", "unset", "read"])
        self.rec_dirty = self.rec_dirty or k != "read"
        if k == "assign":
            self.labels.add("srec-assign")
            return [("assign", ("srec",), ("call", "mapsum", [self.pick([("srec",), ("maplit", [])]), self.e_map(1)]))]
        if k == "unset":
            return [("unset", ("srec",))]
        return [self.show(("srec",), "map")]

    def s_oos(self, depth):
        k = self.pick(["count", "sum", "last", "nested", "read", "unset", "arr", "pair"])
        if k == "count":
            self.oos_types["count"] = "int"
            self.labels.add("oosvar")
            return [("opassign", "+", ("oos", "count"), ("int", 1))]
        if k in ("sum", "nested", "arr") and self.rec_dirty:
            return self.s_print(depth)
        if k == "sum" and self.in_main:
            self.oos_types["sum"] = "map1"
            self.labels.add("oosvar")
            return [("opassign", "+", ("index", ("oos", "sum"), [("field", "s")]), ("field", "i"))]
        if k == "nested" and self.in_main:
            self.oos_types["acc"] = "map2"
            self.labels.add("oosvar")
            return [("opassign", "+", ("index", ("oos", "acc"), [("field", "s"), ("bin", "%", ("field", "i"), ("int", 2))]), ("int", 1))] if self.chance(50) else \
                   [("assign", ("index", ("oos", "acc"), [("field", "s"), ("bin", ".", ("str", "n"), ("ctx", "NR"))]), ("field", "i"))]
        if k == "pair" and self.in_main and not self.rec_dirty:
            self.oos_types["psum"] = "pair"
            self.labels.add("oosvar")
            return [("opassign", "+", ("index", ("oos", "psum"), [("field", "s")]), ("field", "i")), ("opassign", "+", ("index", ("oos", "pcnt"), [("field", "s")]), ("int", 1))]
        if k == "last" and self.in_main:
            self.oos_types["last"] = "rec"
            return [("assign", ("oos", "last"), ("srec",))]
        if k == "arr" and self.in_main:
            if "recs" not in self.oos_types:
                return self.s_print(depth)
            self.labels.add("auto-extend")
            return [("assign", ("index", ("oos", "recs"), [("ctx", "NR")]), ("field", "i"))]
        if k == "unset":
            return [("unset", ("oos", self.pick(["count", "nosuch", "last"])))]
        tag_t = self.pick(["count", "sum", "acc", "last", "nosuch"])
        return [("print", ("bin", ".", ("str", self.fresh_tag()), ("call", "typeof", [("oos", tag_t)])))]

    def s_emit1(self, depth):
        self.labels.add("emit1")
        return [("emit1", self.e_map(1))]

    def s_filter(self, depth):
        self.labels.add("filter-stmt")
        return [("filter", self.e_bool(1))]

    def s_if(self, depth):
        self.labels.add("if")
        arms = [(self.e_bool(1), self.block(1, 3, depth + 1))]
        for _ in range(self.i(0, 2)):
            arms.append((self.e_bool(1), self.block(1, 2, depth + 1)))
        els = self.block(1, 2, depth + 1) if self.chance(50) else None
        return [("if", arms, els)]

    def loop_body(self, depth, bind):
        self.frames.append(dict(bind))
        self.loop_depth += 1
        try:
            return self.block(1, 3, depth + 1)
        finally:
            self.loop_depth -= 1
            self.frames.pop()

    def s_forkv(self, depth):
        self.labels.add("for-kv")
        src = self.pick(["map", "arr", "srec"]) if self.in_main else self.pick(["map", "arr"])
        kn, vn = self.pick([("k", "v"), ("a", "b"), ("k", "e")])
        if src == "map":
            return [("forkv", kn, vn, self.e_map(1), self.loop_body(depth, {kn: "str", vn: "int"}))]
        if src == "arr":
            return [("forkv", kn, vn, self.e_arr(1), self.loop_body(depth, {kn: "int", vn: "int"}))]
        return [("forkv", kn, vn, ("srec",), self.loop_body(depth, {kn: "str", vn: "any"}))]

    def s_fork(self, depth):
        self.labels.add("for-single")
        kn = self.pick(["k", "e", "c"])
        typ = "map" if self.chance(50) else "arr"
        src = self.expr(typ, 1)
        bind = {kn: "str" if typ == "map" else "int"}
        # the documentation promises iteration over a copy for key-value loops only: a single-variable loop over a bare variable
        # must not modify that variable in its body (observed: the loop follows the live map and may never end)
        for n in _locals_in(src):
            if self.lookup(n) in ("map", "arr", "nmap", "amap"):
                bind[n] = "ro-" + self.lookup(n)
        return [("fork", kn, src, self.loop_body(depth, bind))]

    def s_formulti(self, depth):
        self.labels.add("for-multikey")

        def framed(stmt, keys, body):
            # every iteration is observable, and a break/continue tied to the leaf value fires in the middle of the traversal
            out = [("print", ("bin", ".", ("str", self.fresh_tag()), ("bin", ".", ("local", keys[0]), ("local", keys[-1]))))] + body
            if self.chance(60):
                self.labels.add("break-continue")
                out.append(("if", [(("bin", self.pick(["==", ">=", "<"]), ("local", "v"), ("int", self.i(0, 9))), [(self.pick(["break", "break", "continue"]),)])], None))
                out.append(("print", ("bin", ".", ("str", self.fresh_tag()), ("local", "v"))))
            return out
        if self.chance(50):
            body = self.loop_body(depth, {"k1": "ro-str", "k2": "ro-str", "v": "int"})
            return [("formulti", ["k1", "k2"], "v", self.e_nmap(1), framed(None, ["k1", "k2"], body))]
        # three key levels
        m = ("maplit", [(("str", a), ("maplit", [(("str", b), ("maplit", [(("str", c), ("int", self.i(0, 9))) for c in WORDS[5:5 + self.i(1, 2)]])) for b in WORDS[3:3 + self.i(1, 2)]]))
                        for a in WORDS[:self.i(1, 3)]])
        body = self.loop_body(depth, {"k1": "ro-str", "k2": "ro-str", "k3": "ro-str", "v": "int"})
        return [("formulti", ["k1", "k2", "k3"], "v", m, framed(None, ["k1", "k2", "k3"], body))]

    def s_for3(self, depth):
        self.labels.add("for-3part")
        self.counter += 1
        iv = "i%d" % self.counter
        bound = self.i(0, 4)
        mode = self.pick(["declared", "declared", "undeclared", "outer"])
        pre = []
        if mode == "outer":
            pre = [("decl", "int", iv, ("int", 7))]
            self.frames[-1][iv] = "int"
            self.seen_names.add(iv)
            init = [("assign", ("local", iv), ("int", 0))]
        elif mode == "declared":
            init = [("decl", "int", iv, ("int", 0))]
        else:
            init = [("assign", ("local", iv), ("int", 0))]
            self.seen_names.add(iv)
        body = self.loop_body(depth, {iv: "ro-int"})
        post = []
        if self.chance(60):
            post = [("print", ("bin", ".", ("str", self.fresh_tag()), ("call", "typeof", [("local", iv)])))]
        return pre + [("for3", init, ("bin", "<", ("local", iv), ("int", bound)), [("opassign", "+", ("local", iv), ("int", 1))], body)] + post

    def s_while(self, depth):
        self.labels.add("while")
        self.counter += 1
        cv = "w%d" % self.counter
        bound = self.i(0, 4)
        self.frames[-1][cv] = "ro-int"
        inc = ("opassign", "+", ("local", cv), ("int", 1))
        body = [inc] + self.loop_body(depth, {})
        if self.chance(50):
            return [("decl", "int", cv, ("int", 0)), ("while", ("bin", "<", ("local", cv), ("int", bound)), body)]
        return [("decl", "int", cv, ("int", 0)), ("dowhile", body, ("bin", "<", ("local", cv), ("int", bound)))]

    def s_break(self, depth):
        self.labels.add("break-continue")
        return [("if", [(self.e_bool(2), [(self.pick(["break", "continue"]),)])], None)]

    s_continue = s_break

    def s_indexed(self, depth):
        k = self.pick(["mapset", "mapset", "arrset", "extend", "autocreate", "deepen", "unsetm", "unseta", "neg"])
        maps, arrs = self.visible("map"), self.visible("arr")
        if k == "mapset" and maps:
            self.labels.add("indexed-assign")
            return [("assign", ("index", ("local", self.pick(maps)), [("str", self.pick(WORDS[:5]))]), self.e_int(2))]
        if k == "arrset" and arrs:
            self.labels.add("indexed-assign")
            n = self.pick(arrs)
            return [("if", [(("bin", ">=", ("call", "length", [("local", n)]), ("int", 2)), [("assign", ("index", ("local", n), [("int", self.pick([1, 2, -1, -2]))]), self.e_int(2))])], None)]
        if k == "extend" and arrs:
            self.labels.add("auto-extend")
            n = self.pick(arrs)
            return [("assign", ("index", ("local", n), [("bin", "+", ("call", "length", [("local", n)]), ("int", self.pick([1, 1, 1, 3])))]), self.e_int(2))]
        if k == "autocreate":
            name = self.pick(LOCALS)
            if self.lookup(name) is None:
                self.labels.add("auto-create")
                self.frames[-1][name] = "amap"
                self.seen_names.add(name)
                tag = self.fresh_tag()
                return [("assign", ("index", ("local", name), [self.pick([("int", 1), ("int", 3), ("str", "k")])]), self.e_int(2)),
                        ("print", ("bin", ".", ("str", tag), ("call", "json_stringify", [("local", name)])))]
        if k == "deepen":
            name = self.pick(LOCALS)
            if self.lookup(name) is None:
                self.labels.add("auto-create")
                self.frames[-1][name] = "amap"
                self.seen_names.add(name)
                tag = self.fresh_tag()
                return [("assign", ("index", ("local", name), [("str", self.pick(WORDS[:3])), ("int", self.i(1, 3)), ("str", "z")]), self.e_int(2)),
                        ("assign", ("index", ("local", name), [("str", self.pick(WORDS[:3])), ("int", self.i(1, 3)), ("str", "y")]), self.e_int(2)),
                        ("print", ("bin", ".", ("str", tag), ("call", "json_stringify", [("local", name)])))]
        if k == "unsetm" and maps:
            self.labels.add("unset")
            return [("unset", ("index", ("local", self.pick(maps)), [("str", self.pick(WORDS[:4]))]))]
        if k == "unseta" and arrs:
            self.labels.add("unset")
            n = self.pick(arrs)
            return [("if", [(("bin", ">=", ("call", "length", [("local", n)]), ("int", 2)), [("unset", ("index", ("local", n), [("int", self.pick([1, 2, -1]))]))])], None)]
        return self.s_print(depth)

    def s_alias(self, depth):
        """copy semantics: after `y = x` the two collections are independent, whichever of them is modified in place afterwards"""
        typ = self.pick(["map", "arr"])
        srcs = self.visible(typ)
        if not srcs:
            return self.s_decl(depth)
        x = self.pick(srcs)
        others = [n for n in srcs if n != x]
        out = []
        if others and self.chance(70):
            y = self.pick(others)            # re-assignment of an already bound local
        else:
            y = self.pick([n for n in LOCALS if self.lookup(n) is None] or [None])
            if y is None:
                return self.s_print(depth)
            if self.chance(50):
                out.append(("decl", self.pick(["var", "map" if typ == "map" else "arr"]), y, self.expr(typ, 2)))
            self.frames[-1][y] = typ
            self.seen_names.add(y)
        self.labels.add("copy-then-mutate")
        out.append(("assign", ("local", y), ("local", x)))
        victim, other = (x, y) if self.chance(50) else (y, x)
        if typ == "map":
            mut = self.pick([("assign", ("index", ("local", victim), [("str", self.pick(WORDS[:5]))]), self.e_int(2)), ("unset", ("index", ("local", victim), [("str", self.pick(WORDS[:4]))])),
                             ("assign", ("index", ("local", victim), [("str", "nested"), ("int", 1)]), ("int", 5))])
            if mut[0] == "assign" and len(mut[1][2]) == 2:
                self.frames[-1][victim] = "amap" if victim in self.frames[-1] else self.lookup(victim)
        else:
            mut = ("assign", ("index", ("local", victim), [("bin", "+", ("call", "length", [("local", victim)]), ("int", 1))]), self.e_int(2))
        out.append(mut)
        out.append(("print", ("bin", ".", ("str", self.fresh_tag()), ("bin", ".", ("call", "json_stringify", [("local", other)]), ("call", "json_stringify", [("local", victim)])))))
        return out

    def s_callsub(self, depth):
        name = self.pick(sorted(self.subrs))
        self.labels.add("subr-call")
        return [("callsub", name, [self.expr(t, 1) for t in self.subrs[name]])]

    def s_return(self, depth):
        return [("if", [(self.e_bool(2), [("return", self.expr(self.in_func, 1))])], None)]

    # ---- functions
    def gen_func(self, idx):
        name = "f%d" % idx
        kind = self.pick(["plain", "plain", "recursive", "byvalue", "typed"])
        saved = (self.frames, self.in_main, self.loop_depth, self.in_func)
        self.in_main, self.loop_depth = False, 0
        try:
            if kind == "recursive":
                self.labels.add("recursion")
                rt = self.pick(["int", "str"])
                self.frames = [{"n": "ro-int", "acc": rt}]
                self.in_func = rt
                body = self.block(0, 2, 1)
                step = ("bin", "+", ("local", "acc"), self.e_int(2)) if rt == "int" else ("bin", ".", ("local", "acc"), self.e_str(2))
                block = [("if", [(("bin", "<=", ("local", "n"), ("int", 0)), [("return", ("local", "acc"))])], None)] + body + \
                        [("return", ("call", name, [("bin", "-", ("local", "n"), ("int", 1)), step]))]
                self.funcs[name] = (["bound", rt], rt)
                return ("func", name, [("n", self.pick(["int", None])), ("acc", None)], self.pick([None, rt if rt != "int" else "int"]), block)
            if kind == "byvalue":
                self.labels.add("by-value-mutation")
                pt = self.pick(["map", "arr"])
                self.frames = [{"p": pt}]
                self.in_func = "int"
                mut = ("assign", ("index", ("local", "p"), [("str", "added")]), ("int", 1)) if pt == "map" else \
                      ("assign", ("index", ("local", "p"), [("bin", "+", ("call", "length", [("local", "p")]), ("int", 1))]), ("int", 99))
                body = [mut] + self.block(0, 2, 1) + [("return", ("call", "length", [("local", "p")]))]
                self.funcs[name] = ([pt], "int")
                return ("func", name, [("p", self.pick([pt, None]))], self.pick(["int", None]), body)
            npar = self.i(0, 3)
            pts = [self.pick(["int", "str", "bool", "map", "arr"]) for _ in range(npar)]
            rt = self.pick(["int", "str", "map"])
            pnames = ["p", "q", "r"][:npar]
            self.frames = [dict(zip(pnames, pts))]
            self.in_func = rt
            body = self.block(0, 3, 1) + [("return", self.expr(rt, 1))]
            self.funcs[name] = (pts, rt)
            kw = {"int": "int", "str": "str", "bool": "bool", "map": "map", "arr": "arr"}
            return ("func", name, [(pn, kw[pt] if (kind == "typed" or self.chance(30)) else None) for pn, pt in zip(pnames, pts)], (kw[rt] if kind == "typed" else None), body)
        finally:
            self.frames, self.in_main, self.loop_depth, self.in_func = saved

    def gen_subr(self, idx):
        name = "s%d" % idx
        npar = self.i(0, 2)
        pts = [self.pick(["int", "str", "map"]) for _ in range(npar)]
        pnames = ["p", "q"][:npar]
        saved = (self.frames, self.in_main, self.loop_depth, self.in_func)
        self.in_main, self.loop_depth, self.in_func = False, 0, None
        self.frames = [dict(zip(pnames, pts))]
        try:
            body = self.block(1, 3, 1)
            if self.chance(40):
                body.insert(self.i(0, len(body)), ("if", [(self.e_bool(2), [("return", None)])], None))
            self.subrs[name] = pts
            return ("subr", name, [(pn, self.pick([None, {"int": "int", "str": "str", "map": "map"}[pt]])) for pn, pt in zip(pnames, pts)], body)
        finally:
            self.frames, self.in_main, self.loop_depth, self.in_func = saved

    def program(self):
        prog = []
        for idx in range(1, 1 + self.i(0, 3)):
            prog.append(self.gen_func(idx))
        for idx in range(1, 1 + self.i(0, 1)):
            prog.append(self.gen_subr(idx))
        if self.chance(40):
            self.in_main = False
            self.frames = [{}]
            b = [("assign", ("oos", "recs"), ("arrlit", []))] if self.chance(40) else []
            if b:
                self.oos_types["recs"] = "arr"
            prog.append(("begin", b + self.block(0, 2, 1)))
        self.in_main = True
        self.frames = [{}]
        main = []
        if self.chance(12):
            # two accumulators with identical key sets, for the lashed emit in the end block (placed first: the input fields are still intact)
            self.oos_types["psum"] = "pair"
            main += [("opassign", "+", ("index", ("oos", "psum"), [("field", "s")]), ("field", "i")), ("opassign", "+", ("index", ("oos", "pcnt"), [("field", "s")]), ("int", 1))]
        main += [s for _ in range(self.i(1, 7)) for s in self.stmt(0)]
        if self.chance(25):
            self.labels.add("pattern-action")
            main.insert(self.i(0, len(main)), ("patact", self.e_bool(1), self.block(1, 3, 1)))
        prog += main
        if self.chance(55) or "psum" in self.oos_types:
            self.in_main = False
            self.frames = [{}]
            endb = self.block(0, 2, 1)
            for n, t in sorted(self.oos_types.items()):
                if self.chance(70):
                    endb += self.end_emit(n, t)
            if self.chance(30):
                endb.append(("dump",))
                self.labels.add("dump")
            prog.append(("end", endb))
        return prog

    def end_emit(self, n, t):
        self.labels.add("emit-family")
        v = ("oos", n)
        if t == "int":
            return [self.pick([("emit", v, []), ("emitp", v, []), ("emitf", [n])])]
        if t == "map1":
            self.labels.add("emit-by-names")
            return [self.pick([("emit", v, [("str", "s")]), ("emitp", v, [("str", "s")]), ("emit", v, []), ("emitp", v, [])])]
        if t == "map2":
            self.labels.add("emit-by-names")
            return [self.pick([("emit", v, [("str", "s"), ("str", "k")]), ("emitp", v, [("str", "s"), ("str", "k")]), ("emit", v, [("str", "s")]), ("emitp", v, [("str", "s")]),
                               ("emit", v, []), ("emitp", v, [])])]
        if t == "pair":
            self.labels.add("emit-lashed")
            return [("emitl", [("oos", "psum"), ("oos", "pcnt")], [("str", "s")], self.chance(40))]
        if t == "rec":
            return [("emit", v, [])] if self.chance(50) else [("emit1", ("bin", "??", v, ("maplit", [])))]
        if t == "arr":
            return [("print", ("bin", ".", ("str", self.fresh_tag()), ("call", "json_stringify", [v])))]
        return []


def _locals_in(e):
    out = set()
    if isinstance(e, (tuple, list)):
        if len(e) == 2 and e[0] == "local":
            out.add(e[1])
        for x in e:
            out |= _locals_in(x)
    return out


def _uses(x, tags):
    if isinstance(x, (tuple, list)):
        if x and isinstance(x[0], str) and x[0] in tags:
            return True
        return any(_uses(y, tags) for y in x)
    return False


FEATURES = ["hof", "multi", "fatal"]


@st.composite
def record_strategy(draw):
    r = [("i", draw(st.integers(-5, 12))), ("s", draw(st.sampled_from(WORDS[:4])))]
    if draw(st.integers(0, 3)) > 0:
        r.insert(1, ("j", draw(st.integers(0, 9))))
    if draw(st.integers(0, 3)) > 0:
        r.append(("t", draw(st.sampled_from(WORDS[:5]))))
    if draw(st.integers(0, 5)) == 0:
        r.append(("u", draw(st.sampled_from(["", "7", "0.5"]))))
    return r


@st.composite
def program_case(draw):
    g = Gen(draw, FEATURES)
    prog = g.program()
    recs = draw(st.lists(record_strategy(), min_size=0, max_size=6))
    mode = draw(st.sampled_from(["put", "put", "put", "put -q", "put -S", "filter", "filter -x"]))
    if mode.startswith("filter"):
        if _uses(prog, {"filter"}):
            mode = "put"        # "filter expressions must not also contain the filter keyword"
        else:
            # mlr filter: the last bare boolean evaluated decides; assignments and output statements work as in put
            g.in_main = True
            g.frames = [{}]
            g.rec_dirty = True
            cond = g.e_bool(1)
            idx = max([i for i, s in enumerate(prog) if s[0] not in ("end",)] or [-1]) + 1
            prog = prog[:idx] + [("bare", cond)] + prog[idx:]
            g.labels.add("filter-mode")
    return {"prog": prog, "recs": recs, "mode": mode, "labels": sorted(g.labels)}


def to_tuple(x):
    """JSON round trip turns tuples into lists; the interpreter and renderer want tuples for nodes and lists for sequences."""
    if isinstance(x, list):
        if x and isinstance(x[0], str) and x[0] in NODE_TAGS:
            return tuple(to_tuple(y) if i else y for i, y in enumerate(x))
        return [to_tuple(y) for y in x]
    return x


NODE_TAGS = {"int", "float", "str", "bool", "absent", "field", "fieldx", "posname", "posval", "srec", "oos", "oosall", "local", "ctx", "bin", "un", "tern", "index", "slice", "maplit", "arrlit",
             "call", "funclit", "assign", "opassign", "decl", "unset", "if", "while", "dowhile", "for3", "fork", "forkv", "formulti", "break", "continue", "print", "printm", "printn", "dump", "dumpe",
             "emit1", "emit", "emitp", "emitl", "emitf", "filter", "return", "callsub", "bare", "func", "subr", "begin", "end", "patact"}


def normalize(prog):
    """Lists-of-lists (after a JSON round trip) -> the tuple form. Pairs inside maplit/if/params stay pairs."""
    def n(x):
        if isinstance(x, (list, tuple)):
            if len(x) > 0 and isinstance(x[0], str) and x[0] in NODE_TAGS and not (len(x) == 2 and isinstance(x[1], str) and x[0] in ("int", "str") and False):
                return tuple([x[0]] + [n(y) for y in x[1:]])
            return [n(y) for y in x] if isinstance(x, list) else tuple(n(y) for y in x)
        return x
    return [n(s) for s in prog]


def expected_output(prog, recs, mode):
    quiet = mode == "put -q"
    it = md.Interp(prog, mode="filter" if mode.startswith("filter") else "put", quiet=quiet, invert=(mode == "filter -x"))
    out = it.run([MMap(r) for r in recs])
    lines = []
    for kind, v in out:
        if kind == "rec":
            if any(isinstance(x, md.Funct) for x in md._leaves(v)):
                raise md.Unmodelled("function value in a record")
            lines.append(md.to_json(v))
        else:
            lines.append(v)
    return lines


def run_program(ctx, text, recs, mode, extra=()):
    d = vrun.newdir("p")
    path = os.path.join(d, "prog.mlr")
    with open(path, "w") as f:
        f.write(text)
    try:
        verb = ["put"] + (["-q"] if mode == "put -q" else []) + (["-S"] if mode == "put -S" else [])
        if mode.startswith("filter"):
            verb = ["filter"] + (["-x"] if mode == "filter -x" else [])
        stdin = ("".join(md.to_json(MMap(r)) + "\n" for r in recs)).encode()
        return ctx.mlr(["--ijsonl", "--ojsonl"] + list(extra) + verb + ["-f", path], stdin=stdin, timeout=6 if ctx._shrinking else 30)
    finally:
        __import__("shutil").rmtree(d, ignore_errors=True)


def body_reference(ctx, case):
    prog = normalize(case["prog"])
    recs = [[tuple(kv) for kv in r] for r in case["recs"]]
    mode = case["mode"] if case["mode"] != "put twice" else "put"
    try:
        text = md.render_program(prog)
    except md.Unmodelled as e:
        ctx.excluded["unrenderable: %s" % str(e)[:60]] += 1
        return
    fatal = None
    try:
        exp = expected_output(prog, recs, mode)
    except md.Unmodelled as e:
        ctx.excluded["unmodelled: %s" % re.sub(r"[0-9]+", "N", str(e))[:70]] += 1
        return
    except md.Fatal as e:
        fatal = str(e)
        fatal_in_udf = getattr(e, "in_udf", False)
    except RecursionError:
        ctx.excluded["model recursion limit"] += 1
        return
    res = run_program(ctx, text, recs, mode)
    labels = list(case.get("labels", []))
    if res.panicked or res.timed_out:
        ctx.fail(case, "program crashes or hangs (rc=%s): %s\n%s" % (res.rc, res.err[:300].decode("utf-8", "replace"), text))
    if fatal is not None:
        ctx.case(("f", text, json.dumps(case["recs"])), True, labels=labels + ["predicted-fatal"])
        if res.rc == 0:
            ctx.fail(case, "the documentation makes this program a fatal error (%s%s) but mlr exits 0\n%s\nstdout: %s" % (
                fatal, ", raised inside a user-defined function" if fatal_in_udf else "", text, res.out[:300].decode("utf-8", "replace")), {"fatal_in_udf": fatal_in_udf})
        return
    if res.rc != 0:
        ctx.fail(case, "mlr fails (rc=%s, %s) on a program the reference interpreter runs to completion\n%s" % (res.rc, res.err[:300].decode("utf-8", "replace"), text))
    got = res.out.decode("utf-8", "replace").split("\n")
    if got and got[-1] == "":
        got.pop()
    nontrivial = bool(set(labels) - {"new-field", "typed-decl"}) and exp != [md.to_json(MMap(r)) for r in recs]
    ctx.case(("p", text, json.dumps(case["recs"]), mode), nontrivial, labels=labels,
             sample={"program": text, "records": case["recs"][:2], "mode": mode} if nontrivial and len(ctx.samples) < 3 and len(text) < 900 else None)
    # typeof of a computed boolean is "boolean" in the function list's own examples and "bool" elsewhere: both spellings accepted
    norm = lambda x: x.replace("boolean", "bool").replace("BOOLEAN", "BOOL").replace("Boolean", "Bool")
    got = [norm(x) for x in got]
    exp = [norm(x) for x in exp]
    if got != exp:
        i = 0
        while i < min(len(got), len(exp)) and got[i] == exp[i]:
            i += 1
        ctx.fail(case, "output line %d differs: mlr gives %r, the reference interpreter gives %r (%d vs %d lines)\n--- program (%s)\n%s--- records\n%s" % (
            i + 1, got[i] if i < len(got) else "<end>", exp[i] if i < len(exp) else "<end>", len(got), len(exp), mode, text, "\n".join(md.to_json(MMap(r)) for r in recs)))


def sub_reference(ctx):
    ctx.hyp(program_case(), lambda c: body_reference(ctx, c), ctx.n(5000, 120000), shrink_budget=1200)


SUBCHECKS = [
    Sub("reference_interpreter", sub_reference, body_reference, shards={"quick": 16, "thorough": 16}, cost=4,
        rule="generated programs (0-3 UDFs incl. recursive and argument-mutating ones, subroutines, begin/end, 1-7 main statements nested up to depth 3) vs the Python reference interpreter, line by line"),
]

KNOWN = {}


# --------------------------------------------------------------------------------------------
# parse shapes vs the documented precedence table (evaluation-free)

SHAPE_BINOPS = [op for op in md.PREC if op not in ("?:", "unary", ".+", ".-", ".*", "./")]
SHAPE_UNOPS = ["!", "~", "-", "+"]


def sexpr(e):
    """the parenthesised form `mlr put -D` prints for an expression tree"""
    if e[0] == "bin":
        return "(%s %s %s)" % (e[1], sexpr(e[2]), sexpr(e[3]))
    if e[0] == "un":
        return "(%s %s)" % (e[1], sexpr(e[2]))
    if e[0] == "tern":
        return "(? %s %s %s)" % (sexpr(e[1]), sexpr(e[2]), sexpr(e[3]))
    if e[0] == "field":
        return "$" + e[1]
    raise ValueError(e[0])


def flat_expected(a_op, b_op):
    """tree the table gives for `$x1 A $x2 B $x3`"""
    x1, x2, x3 = ("field", "x1"), ("field", "x2"), ("field", "x3")
    pa, pb = md.PREC[a_op], md.PREC[b_op]
    if pa > pb or (pa == pb and a_op not in md.RIGHT_ASSOC):
        return ("bin", b_op, ("bin", a_op, x1, x2), x3)
    return ("bin", a_op, x1, ("bin", b_op, x2, x3))


def shape_cases_exhaustive():
    x = [("field", "x%d" % i) for i in range(1, 6)]
    out = []
    for a in SHAPE_BINOPS:
        for b in SHAPE_BINOPS:
            out.append(("$x1 %s $x2 %s $x3" % (a, b), flat_expected(a, b), "binary-pair"))
    for u in SHAPE_UNOPS:
        for b in SHAPE_BINOPS:
            # a prefix operator in front of `$x1 B $x2`
            if md.PREC["unary"] > md.PREC[b]:
                exp = ("bin", b, ("un", u, x[0]), x[1])
            else:
                exp = ("un", u, ("bin", b, x[0], x[1]))
            out.append(("%s $x1 %s $x2" % (u, b), exp, "unary-then-binary"))
            if md.PREC[b] < md.PREC["unary"]:
                out.append(("$x1 %s %s $x2" % (b, u), ("bin", b, x[0], ("un", u, x[1])), "binary-then-unary"))
    for b in SHAPE_BINOPS:
        out.append(("$x1 %s $x2 ? $x3 : $x4" % b, ("tern", ("bin", b, x[0], x[1]), x[2], x[3]), "ternary"))
        out.append(("$x1 ? $x2 %s $x3 : $x4" % b, ("tern", x[0], ("bin", b, x[1], x[2]), x[3]), "ternary"))
        out.append(("$x1 ? $x2 : $x3 %s $x4" % b, ("tern", x[0], x[1], ("bin", b, x[2], x[3])), "ternary"))
    out.append(("$x1 ? $x2 : $x3 ? $x4 : $x5", ("tern", x[0], x[1], ("tern", x[2], x[3], x[4])), "ternary"))
    out.append(("$x1 ? $x2 ? $x3 : $x4 : $x5", ("tern", x[0], ("tern", x[1], x[2], x[3]), x[4]), "ternary"))
    return out


_AST_LINE = re.compile(r'^( *)"(.*)" \[tt:(\S+)\] \[nt:(\S+)\]$')


def parse_ast_listing(text):
    """`put -v` prints one node per line, children indented by 4 more spaces. Returns the root as [token, nodetype, children].
    Parenthesized nodes (which only record that the source had parentheses) are replaced by their single child."""
    root = None
    stack = []
    for ln in text.split("\n"):
        m = _AST_LINE.match(ln)
        if not m:
            continue
        lvl = len(m.group(1)) // 4
        node = [m.group(2), m.group(4), []]
        if lvl == 0:
            root = node
            stack = [node]
            continue
        del stack[lvl:]
        stack[-1][2].append(node)
        stack.append(node)

    def strip(n):
        kids = [strip(k) for k in n[2]]
        if n[1] == "Parenthesized" and len(kids) == 1:
            return kids[0]
        return [n[0], n[1], kids]
    return strip(root) if root else None


def ast_sexpr(n):
    if not n[2]:
        return n[0]
    return "(" + n[0] + " " + " ".join(ast_sexpr(k) for k in n[2]) + ")"


def run_shapes(ctx, cases):
    """cases: list of (text, expected tree, label). One invocation per batch; returns the parsed shape of each right-hand side."""
    prog = "".join("$y%d = %s;\n" % (i, t) for i, (t, _, _) in enumerate(cases))
    res = ctx.mlr(["-n", "put", "-v", "-X", prog], timeout=30)
    if res.rc != 0:
        if len(cases) == 1:
            return [None]
        h = len(cases) // 2
        return run_shapes(ctx, cases[:h]) + run_shapes(ctx, cases[h:])
    out = res.out.decode("utf-8", "replace")
    out = out[out.index("\nAST:\n") + 6:] if "\nAST:\n" in out else out
    root = parse_ast_listing(out)
    got = [None] * len(cases)
    for st_ in (root[2] if root else []):
        if st_[0] == "=" and len(st_[2]) == 2 and st_[2][0][0].startswith("$y"):
            got[int(st_[2][0][0][2:])] = ast_sexpr(st_[2][1])
    return got


def judge_shapes(ctx, cases):
    got = run_shapes(ctx, cases)
    for (text, exp, label), g in zip(cases, got):
        ctx.case(("shape", text), True, labels=("shape:" + label,), sample={"expression": text, "parsed": g} if len(ctx.samples) < 3 else None)
        case = {"text": text, "expected": sexpr(exp)}
        if g is None:
            ctx.guard(ctx.fail, case, "`%s` does not parse; the documented precedence table makes it %s" % (text, sexpr(exp)))
        elif g != sexpr(exp):
            ctx.guard(ctx.fail, case, "`%s` parses as %s; the documented precedence table makes it %s" % (text, g, sexpr(exp)))
        if len(ctx.violations) >= 5:
            return


def sub_shapes_exhaustive(ctx):
    cases = shape_cases_exhaustive()
    mine = [c for i, c in enumerate(cases) if i % ctx.nshards == ctx.shard]
    for i in range(0, len(mine), 150):
        judge_shapes(ctx, mine[i:i + 150])


def replay_shape(ctx, case):
    got = run_shapes(ctx, [(case["text"], None, "replay")])[0]
    ctx.case(("shape", case["text"]), True)
    if got != case["expected"]:
        ctx.fail(case, "`%s` parses as %s; the documented precedence table makes it %s" % (case["text"], got, case["expected"]))


@st.composite
def shape_tree(draw, depth=0):
    k = draw(st.integers(0, 9))
    if depth >= 4 or k < 3:
        return ("field", "x%d" % draw(st.integers(1, 9)))
    if k < 8:
        return ("bin", draw(st.sampled_from(SHAPE_BINOPS)), draw(shape_tree(depth + 1)), draw(shape_tree(depth + 1)))
    if k == 8:
        return ("un", draw(st.sampled_from(SHAPE_UNOPS)), draw(shape_tree(depth + 1)))
    return ("tern", draw(shape_tree(depth + 1)), draw(shape_tree(depth + 1)), draw(shape_tree(depth + 1)))


def body_shape_random(ctx, case):
    trees = [md_tuple(t) for t in case["trees"]]
    cases = [(md.render_expr(t, minimal=True), t, "random-tree") for t in trees]
    got = run_shapes(ctx, cases)
    for (text, exp, _), g in zip(cases, got):
        nt = exp[0] != "field"
        ctx.case(("shape", text), nt, labels=("shape:random-tree",))
        if g != sexpr(exp):
            ctx.fail({"trees": [exp]}, "`%s` (minimal parentheses by the documented table) parses as %s instead of %s" % (text, g, sexpr(exp)))


def md_tuple(t):
    return tuple(md_tuple(x) if isinstance(x, (list, tuple)) else x for x in t)


def sub_shapes_random(ctx):
    ctx.hyp(st.fixed_dictionaries({"trees": st.lists(shape_tree(), min_size=20, max_size=60)}), lambda c: body_shape_random(ctx, c), ctx.n(100, 2500), shrink_budget=300)


SUBCHECKS += [
    Sub("parse_shape_operator_pairs", sub_shapes_exhaustive, replay_shape, shards={"quick": 4, "thorough": 4}, exhaustive=True,
        rule="every ordered pair of the 26 binary operators of the documented table as `$x1 A $x2 B $x3`, every prefix operator before and after every binary operator, the ternary operator against every "
             "binary operator in each of its three positions: the AST printed by `put -D -X` must be the tree the table's precedence and associativity give"),
    Sub("parse_shape_random_trees", sub_shapes_random, body_shape_random, shards={"quick": 2, "thorough": 8},
        rule="random operator trees up to depth 4 rendered with the minimal parentheses the documented table requires parse back to the same tree"),
]


# --------------------------------------------------------------------------------------------
# metamorphic relations (no reference model)

def rename_locals(x, f, keep=()):
    """alpha-renaming of every local name (declarations, uses, loop variables, parameters)"""
    if isinstance(x, tuple) and x and isinstance(x[0], str) and x[0] in NODE_TAGS:
        t = x[0]
        if t == "local":
            return ("local", f(x[1]))
        if t == "decl":
            return ("decl", x[1], f(x[2]), rename_locals(x[3], f))
        if t == "fork":
            return ("fork", f(x[1]), rename_locals(x[2], f), rename_locals(x[3], f))
        if t == "forkv":
            return ("forkv", f(x[1]), f(x[2]), rename_locals(x[3], f), rename_locals(x[4], f))
        if t == "formulti":
            return ("formulti", [f(n) for n in x[1]], f(x[2]), rename_locals(x[3], f), rename_locals(x[4], f))
        if t == "funclit":
            return ("funclit", [f(n) for n in x[1]], rename_locals(x[2], f))
        if t in ("func",):
            return ("func", x[1], [(f(pn), pt) for pn, pt in x[2]], x[3], rename_locals(x[4], f))
        if t == "subr":
            return ("subr", x[1], [(f(pn), pt) for pn, pt in x[2]], rename_locals(x[3], f))
        if t in ("str", "int", "bool", "float", "field", "oos", "ctx"):
            return x
        if t == "call":
            return ("call", x[1], rename_locals(x[2], f))
        if t == "callsub":
            return ("callsub", x[1], rename_locals(x[2], f))
        if t == "emitf":
            return x
        return tuple([t] + [rename_locals(y, f) for y in x[1:]])
    if isinstance(x, list):
        return [rename_locals(y, f) for y in x]
    if isinstance(x, tuple):
        return tuple(rename_locals(y, f) for y in x)
    return x


def run_text(ctx, chain, recs, io=("--ijsonl", "--ojsonl")):
    """chain: list of (verb args..., program text) tuples joined with then; programs go through -f files"""
    d = vrun.newdir("m")
    try:
        argv = list(io)
        for i, (verb, text) in enumerate(chain):
            if i:
                argv.append("then")
            if text is None:
                argv += verb
            else:
                path = os.path.join(d, "p%d.mlr" % i)
                with open(path, "w") as f:
                    f.write(text)
                argv += verb + ["-f", path]
        stdin = ("".join(md.to_json(MMap(r)) + "\n" for r in recs)).encode()
        return ctx.mlr(argv, stdin=stdin, timeout=8 if ctx._shrinking else 30)
    finally:
        __import__("shutil").rmtree(d, ignore_errors=True)


def same_outcome(ctx, case, a, b, what):
    if a.panicked or b.panicked or a.timed_out or b.timed_out:
        ctx.fail(case, "%s: crash or hang (rc %s / %s): %s %s" % (what, a.rc, b.rc, a.err[:200], b.err[:200]))
    if (a.rc == 0) != (b.rc == 0):
        ctx.fail(case, "%s: exit status %s vs %s\n%s\n%s" % (what, a.rc, b.rc, a.err[:300].decode("utf-8", "replace"), b.err[:300].decode("utf-8", "replace")))
    if a.rc == 0 and a.out != b.out:
        la, lb = a.out.decode("utf-8", "replace").split("\n"), b.out.decode("utf-8", "replace").split("\n")
        i = 0
        while i < min(len(la), len(lb)) and la[i] == lb[i]:
            i += 1
        ctx.fail(case, "%s: output line %d differs: %r vs %r" % (what, i + 1, la[i] if i < len(la) else "<end>", lb[i] if i < len(lb) else "<end>"))


def resource_hungry(prog, recs):
    """The metamorphic sub-checks run programs the reference interpreter does not judge; it is still used as a guard against programs
    that legitimately need huge memory or time (a string that doubles in every iteration, 20000 steps)."""
    try:
        md.Interp(prog).run([MMap(r) for r in recs])
    except md.Unmodelled as e:
        return any(w in str(e) for w in ("longer than", "more than 2000", "step budget", "recursion too deep"))
    except (md.Fatal, RecursionError, MemoryError):
        return True
    except Exception:
        return False
    return False


def body_alpha(ctx, case):
    prog = normalize(case["prog"])
    recs = [[tuple(kv) for kv in r] for r in case["recs"]]
    if resource_hungry(prog, recs):
        ctx.excluded["program needs very large strings/collections or many steps"] += 1
        return
    try:
        t1 = md.render_program(prog)
        t2 = md.render_program(rename_locals(prog, lambda n: n + "_r"))
        has_pat = any(s[0] in ("patact", "func", "subr", "begin", "end") for s in prog)
        main = [s for s in prog if s[0] not in ("func", "subr", "begin", "end")]
        rest = [s for s in prog if s[0] in ("func", "subr", "begin", "end")]
        t3 = None
        if not any(s[0] == "patact" for s in main):
            t3 = md.render_program(rest + [("if", [(("bool", True), main)], None)])
    except md.Unmodelled:
        ctx.excluded["unrenderable"] += 1
        return
    a = run_text(ctx, [(["put"], t1)], recs)
    b = run_text(ctx, [(["put"], t2)], recs)
    labels = list(case.get("labels", []))
    ctx.case(("alpha", t1, json.dumps(case["recs"])), a.rc == 0 and bool(a.out), labels=["relation:alpha-renaming"] + labels[:0],
             sample={"program": t1[:600]} if len(ctx.samples) < 2 and len(t1) < 600 else None)
    same_outcome(ctx, case, a, b, "alpha-renaming of all locals (x -> x_r) changes the behaviour\n--- program\n%s" % t1)
    if t3 is not None:
        c = run_text(ctx, [(["put"], t3)], recs)
        ctx.case(("wrap", t1, json.dumps(case["recs"])), a.rc == 0 and bool(a.out), labels=["relation:wrap-main-in-if-true"])
        same_outcome(ctx, case, a, c, "wrapping the main block in `if (true) {...}` changes the behaviour\n--- program\n%s" % t1)


def sub_alpha(ctx):
    ctx.hyp(program_case(), lambda c: body_alpha(ctx, c), ctx.n(600, 20000), shrink_budget=400)


@st.composite
def two_part_case(draw):
    g1 = Gen(draw, FEATURES + ["no-output"])
    a = [s for _ in range(draw(st.integers(1, 4))) for s in g1.stmt(0)]
    g2 = Gen(draw, FEATURES + ["no-output"])
    g2.tag = 100
    b = [s for _ in range(draw(st.integers(1, 4))) for s in g2.stmt(0)]
    recs = draw(st.lists(record_strategy(), min_size=1, max_size=5))
    return {"a": a, "b": b, "recs": recs}


def _uses(x, tags):
    if isinstance(x, (tuple, list)):
        if x and isinstance(x[0], str) and x[0] in tags:
            return True
        return any(_uses(y, tags) for y in x)
    return False


def body_then(ctx, case):
    a, b = normalize(case["a"]), normalize(case["b"])
    recs = [[tuple(kv) for kv in r] for r in case["recs"]]
    # `put A then put B` == `put 'A; B'` needs: no record-stream side effects in A that B would see differently (emit, filter, print
    # ordering across the two instances), no oosvars shared, B's locals renamed apart from A's
    banned = {"emit1", "emit", "emitp", "emitf", "emitl", "filter", "print", "printn", "dump", "oos", "oosall", "patact"}
    if _uses(a, banned) or _uses(b, {"oos", "oosall", "patact", "filter", "emit1"}):
        ctx.excluded["parts with output statements or oosvars"] += 1
        return
    b = rename_locals(b, lambda n: n + "_b")
    if resource_hungry(a + b, recs):
        ctx.excluded["program needs very large strings/collections or many steps"] += 1
        return
    try:
        ta, tb = md.render_program(a), md.render_program(b)
    except md.Unmodelled:
        return
    x = run_text(ctx, [(["put"], ta), (["put"], tb)], recs)
    y = run_text(ctx, [(["put"], ta + tb)], recs)
    ctx.case(("then", ta, tb, json.dumps(case["recs"])), x.rc == 0, labels=["relation:put-A-then-put-B"], sample={"A": ta[:300], "B": tb[:300]} if len(ctx.samples) < 2 else None)
    # printed text of instance B may interleave differently with records only if A prints: A has no prints here
    same_outcome(ctx, case, x, y, "`put A then put B` differs from `put 'A; B'`\n--- A\n%s--- B\n%s" % (ta, tb))


def sub_then(ctx):
    ctx.hyp(two_part_case(), lambda c: body_then(ctx, c), ctx.n(500, 15000), shrink_budget=400)


@st.composite
def filter_case(draw):
    g = Gen(draw, FEATURES)
    cond = g.e_bool(0)
    # tie the condition to the data so that it usually splits the stream
    cond = ("bin", draw(st.sampled_from(["&&", "||", "^^"])), cond, ("bin", draw(st.sampled_from(["<", ">=", "!="])), ("field", "i"), ("int", draw(st.integers(-2, 8)))))
    recs = draw(st.lists(record_strategy(), min_size=1, max_size=6))
    return {"cond": cond, "recs": recs}


def body_filter(ctx, case):
    cond = normalize([case["cond"]])[0]
    recs = [[tuple(kv) for kv in r] for r in case["recs"]]
    try:
        c = md.render_expr(cond)
    except md.Unmodelled:
        return
    base = run_text(ctx, [(["filter"], c + "\n")], recs)
    ctx.case(("filter", c, json.dumps(case["recs"])), base.rc == 0 and 0 < base.out.count(b"\n") < len(recs), labels=["relation:filter-equivalences"],
             sample={"condition": c} if len(ctx.samples) < 2 else None)
    if base.rc != 0:
        return   # a non-boolean or failing condition: the equivalences are stated for boolean conditions
    for what, chain in [("put 'filter C'", [(["put"], "filter " + c + ";\n")]),
                        ("put -q 'C {emit1 $*}'", [(["put", "-q"], c + " {\n  emit1 $*;\n}\n")]),
                        ("filter -x '!(C)'", [(["filter", "-x"], "!(" + c + ")\n")]),
                        ("filter 'filter-less final bare boolean after an assignment'", [(["filter"], "var filter_probe_local = 1;\n" + c + "\n")]),
                        ("put -q 'if (C) {emit1 $*}'", [(["put", "-q"], "if (" + c + ") {\n  emit1 $*;\n}\n")])]:
        other = run_text(ctx, chain, recs)
        same_outcome(ctx, case, base, other, "`filter C` differs from `%s` for C = %s" % (what, c))


def sub_filter(ctx):
    ctx.hyp(filter_case(), lambda c: body_filter(ctx, c), ctx.n(400, 10000), shrink_budget=300)


GROUP_WORDS = ["pan", "eks", "wye", "zee"]


@st.composite
def emit_case(draw):
    recs = []
    for _ in range(draw(st.integers(1, 12))):
        r = [("a", draw(st.sampled_from(GROUP_WORDS))), ("b", draw(st.sampled_from(GROUP_WORDS[:3]))), ("x", draw(st.integers(-5, 20)))]
        if draw(st.integers(0, 4)) == 0:
            r.append(("y", draw(st.integers(0, 9))))
        recs.append(r)
    return {"recs": recs, "which": draw(st.integers(0, 7))}


def body_emit(ctx, case):
    recs = [[tuple(kv) for kv in r] for r in case["recs"]]
    w = case["which"]
    io = ("--ijsonl", "--ojson")
    rel = [
        ("sum by a,b", '@sum[$a][$b] += $x;\nend {\n  emit @sum, "a", "b";\n}\n', ["stats1", "-a", "sum", "-f", "x", "-g", "a,b", "then", "rename", "x_sum,sum"]),
        ("count by a", '@count[$a] += 1;\nend {\n  emit @count, "a";\n}\n', ["count", "-g", "a"]),
        ("count by a,b", '@count[$a][$b] += 1;\nend {\n  emit @count, "a", "b";\n}\n', ["count", "-g", "a,b"]),
        ("emitp full split", '@sum[$a][$b] += $x;\nend {\n  emitp @sum, "a", "b";\n}\n', ["stats1", "-a", "sum", "-f", "x", "-g", "a,b", "then", "rename", "x_sum,sum"]),
        ("lashed sum and count", '@sum[$a][$b] += $x;\n@count[$a][$b] += 1;\nend {\n  emit (@sum, @count), "a", "b";\n}\n',
         ["stats1", "-a", "sum,count", "-f", "x", "-g", "a,b", "then", "rename", "x_sum,sum,x_count,count"]),
        ("max by a", '@max[$a] = max(@max[$a], $x);\nend {\n  emit @max, "a";\n}\n', ["stats1", "-a", "max", "-f", "x", "-g", "a", "then", "rename", "x_max,max"]),
        ("first record by a", '@first[$a] = @first[$a] ?? $*;\nend {\n  emit @first, "a";\n}\n', ["head", "-n", "1", "-g", "a", "then", "reorder", "-f", "a"]),
        ("sum by a, emit mapexpr", '@sum[$a] += $x;\nend {\n  emit mapsum({}, @sum), "a";\n}\n', None),
    ][w % 8]
    name, prog, verb = rel
    a = run_text(ctx, [(["put", "-q"], prog)], recs, io=io)
    ctx.case(("emit", name, json.dumps(case["recs"])), len(set(r[0][1] for r in recs)) > 1, labels=["relation:emit == " + name], sample={"program": prog, "verb": verb} if len(ctx.samples) < 2 else None)
    if verb is None:
        # emit of a map-valued expression with one name: the leaf level becomes the fields of one record per first-level key
        b = run_text(ctx, [(["put", "-q"], '@sum[$a] += $x;\nend {\n  for (k, v in @sum) {\n    emit1 {"a": k, "sum": v};\n  }\n}\n')], recs, io=io)
        # documented form for names exhausting the levels of a *named* variable; for a map expression the docs give no leaf name -> only crash/exit status compared
        if a.panicked or a.timed_out:
            ctx.fail(case, "emit mapexpr crashes")
        return
    b = run_text(ctx, [(verb, None)], recs, io=io)
    if a.rc == 0 and b.rc == 0 and ", \"b\"" in prog:
        # two grouping levels: emit walks the nested map (all b's of the first a, then the next a), the verb lists (a,b) pairs by first
        # appearance; the same records in a different group order -> compared as multisets, field order inside each record kept
        try:
            ra = sorted(json.dumps(r) for r in json.loads(a.out.decode() or "[]", object_pairs_hook=lambda ps: ps))
            rb = sorted(json.dumps(r) for r in json.loads(b.out.decode() or "[]", object_pairs_hook=lambda ps: ps))
        except ValueError as e:
            ctx.fail(case, "unparsable JSON output: %s" % e)
        if ra != rb:
            ctx.fail(case, "emit-by-names (%s) and the grouping verb `%s` give different records: %r vs %r\n%s" % (name, " ".join(verb), ra[:4], rb[:4], prog))
        return
    same_outcome(ctx, case, a, b, "emit-by-names (%s) differs from the grouping verb `%s`\n%s" % (name, " ".join(verb), prog))


def sub_emit(ctx):
    ctx.hyp(emit_case(), lambda c: body_emit(ctx, c), ctx.n(400, 12000), shrink_budget=300)


def sub_presets(ctx):
    """`put -s name=value` == `begin {@name = value}` with the value inferred like data; oosvars are private to each put in a chain"""
    # "true"/"false" are left out: the help text says both "is like begin {@name = value}" (a boolean literal) and "subject to type-inferencing" (data "true" is a string)
    vals = ["5", "-3", "0x10", "1.5", "abc", "", "1e3", "a b", "007", "0b11", "-0", "1_000", "Inf"]
    recs = [[("i", 1)], [("i", 2)]]
    for j, v in enumerate(vals):
        if j % ctx.nshards != ctx.shard:
            continue
        a = run_text(ctx, [(["put", "-s", "v=" + v], '$t = typeof(@v);\n$w = @v;\n$z = @v . "|";\n')], recs)
        # the reference for inference is the same text arriving as a field value
        b = run_text(ctx, [(["put"], '$t = typeof($src);\n$w = $src;\n$z = $src . "|";\nunset $src;\n')], [r + [("src", v)] for r in recs], io=("--ijsonl", "--ojsonl", "-S")[:2])
        ctx.case(("preset", v), True, labels=["relation:-s preset"])
        # JSON string input is not type-inferred, so feed through dkvp instead
        d = vrun.newdir("s")
        try:
            path = os.path.join(d, "p.mlr")
            with open(path, "w") as f:
                f.write('$t = typeof($src);\n$w = $src;\n$z = $src . "|";\nunset $src;\n')
            b = ctx.mlr(["--idkvp", "--ifs", ";", "--ojsonl", "put", "-f", path], stdin=("".join("i=%d;src=%s\n" % (r[0][1], v) for r in recs)).encode())
        finally:
            __import__("shutil").rmtree(d, ignore_errors=True)
        ctx.guard(same_outcome, ctx, {"value": v}, a, b, "`put -s v=%s` differs from the same text inferred from data" % v)
    if ctx.shard == 0:
        x = run_text(ctx, [(["put", "-q"], "@c += 1;\n@m[NR] = $i;\nend {\n  emit @c;\n}\n"), (["put"], '$seen = typeof(@c) . ":" . typeof(@m);\n@c = "second";\n')], recs)
        ctx.case(("private-oosvars",), True, labels=["relation:oosvars private to each put"])
        if x.rc != 0 or x.out.decode() != '{"c": 2, "seen": "absent:absent"}\n':
            ctx.guard(ctx.fail, {"value": "private"}, "out-of-stream variables leak between two put instances of one chain: %r %r" % (x.out, x.err[:200]))


SUBCHECKS += [
    Sub("alpha_renaming_and_block_wrapping", sub_alpha, body_alpha, shards={"quick": 8, "thorough": 16}, cost=3,
        rule="generated programs: renaming every local consistently, and wrapping the main block in if (true) {...}, must not change stdout or the exit status"),
    Sub("put_then_put", sub_then, body_then, shards={"quick": 4, "thorough": 8}, cost=2,
        rule="`put A then put B` == `put 'A; B'` for generated statement lists without output statements or oosvars, B's locals renamed apart"),
    Sub("filter_equivalences", sub_filter, body_filter, shards={"quick": 4, "thorough": 8}, cost=2,
        rule="for generated boolean conditions C: filter C == put 'filter C' == put -q 'C {emit $*}' == filter -x '!(C)' == put -q 'if (C) {emit1 $*}'"),
    Sub("emit_by_names_vs_grouping_verbs", sub_emit, body_emit, shards={"quick": 4, "thorough": 8}, cost=2,
        rule="emit/emitp/lashed emit by names after @v[$a][$b] accumulation == stats1/count/head -g with fields renamed, record for record and in the same group order"),
    Sub("presets_and_private_oosvars", sub_presets, None, shards={"quick": 2, "thorough": 2}, exhaustive=True,
        rule="put -s name=value infers the value like data; two put instances in one chain do not share out-of-stream variables"),
]
