"""C03 - fields a chain does not assign pass through byte-for-byte."""
import csv
import json

from hypothesis import strategies as st

from vlib.core import Sub
from vlib import gen
from vlib import model_num as mn

LEVEL = "exploration"
RULE = ("Hypothesis: streams with bystander fields carrying number spellings / hostile byte strings, through 1-3 verbs or DSL "
        "programs that read but never assign them, under default/-S/-A/-O, CSV/TSV/DKVP in and out; every output record is "
        "traced to its input by an id field and each bystander's text and relative order compared byte-for-byte; non-trivial = "
        "a bystander whose spelling differs from the canonical rendering of its inferred value and a verb read it")
ASSUMPTIONS = ["Python csv module is a correct RFC-4180 codec", "latin-1 decoding preserves bytes"]

READERS = [
    ["sort", "-nf", "x"], ["sort", "-nr", "x", "-f", "y"], ["sort", "-f", "x"], ["sort", "-c", "x"], ["sort", "-t", "x"], ["sort", "-nr", "y"],
    ["put", "$z = $x + 1"], ["put", '$z = $x . "s"'], ["put", "$z = typeof($x) . is_numeric($y)"], ["put", '$z = fmtifnum($x,"%d")'],
    ["put", "$z = strlen($x)"], ["put", "$z = $x * $y"], ["put", '$z = $x =~ "^0x"'], ["put", "$z = $x < $y"], ["put", "$z = asserting_not_null($k)"],
    ["put", '$z = sub($x, "e", "E")'], ["put", "$z = abs($x) . ceil($y)"], ["put", "$z = $x ?? 7"], ["put", '$z = hexfmt($x)'], ["put", "$z = -$x"],
    ["put", "$z = min($x, $y)"], ["put", "$z = $x . $y"], ["put", "$z = int($x)"], ["put", "$z = float($x)"], ["put", "$z = $x == $y"],
    ["put", "m = $*; $z = m[\"x\"]"], ["put", "$* = mapsum($*, {\"z\": 1})"], ["put", "$z = json_encode($x)"],
    ["put", "if (is_numeric($x)) {$z = 1} else {$z = 2}"], ["put", "$z = $x; unset $z"], ["put", "$z = format_values is absent"],
    ["filter", "$x > 3 || true"], ["filter", "is_present($x)"], ["filter", "is_numeric($x) || is_string($x) || is_empty($x)"],
    ["filter", "-x", "$x == $y && false"],
    ["put", "-q", "@m[NR]=$*; end{emit @m,\"NR\"}"], ["put", "-q", "tee > \"/dev/stdout\", $*"],
    ["stats1", "-a", "count,max", "-f", "k", "-g", "x"], ["count-similar", "-g", "x"], ["count-similar", "-g", "x,y"], ["top", "-f", "k", "-g", "x", "-a"],
    ["top", "-f", "x", "-a"], ["merge-fields", "-k", "-a", "sum", "-f", "x,y", "-o", "o"], ["merge-fields", "-k", "-a", "min,max", "-c", "x,y", "-o", "o"],
    ["step", "-a", "delta,shift", "-f", "k"], ["step", "-a", "delta,shift,rsum,counter", "-f", "x"], ["fill-down", "-a", "-f", "k"], ["fill-down", "-f", "k"],
    ["unsparsify"], ["regularize"], ["reorder", "-e", "-f", "g"], ["reorder", "-f", "k"], ["cut", "-x", "-f", "g"], ["cut", "-x", "-r", "-f", "^g$"],
    ["head", "-n", "3", "-g", "x"], ["tail", "-n", "2", "-g", "y"], ["nest", "--ivar", ";", "-f", "g"], ["nest", "--explode", "--values", "--across-records", "-f", "g", "--nested-fs", ";"],
    ["sec2gmt", "k"], ["rename", "g,h"], ["rename", "-r", "^g$,h"], ["tac"], ["cat", "-n"], ["cat", "-g", "x"], ["group-by", "x"], ["group-like"],
    ["uniq", "-g", "id"], ["uniq", "-a"], ["count-distinct", "-f", "x", "then", "nothing"], ["fraction", "-f", "k"], ["having-fields", "--at-least", "x"],
    ["sort-within-records"], ["sort-within-records", "-r"], ["label", "ID"], ["decimate", "-n", "1"], ["shuffle"], ["bootstrap"], ["sample", "-k", "100"],
    ["grep", "-v", "NOSUCHTEXT"], ["json-stringify", "-f", "g"], ["fill-empty", "--only-if-blank", "-v", "X", "--only-if-blank"], ["sparsify", "-f", "g"],
    ["template", "-f", "id,g,k,x,y,z1,z2,z3,z4,z5,z6,z7,z8,z9,zA", "--fill-with", "F"], ["altkv", "then", "nothing"], ["case", "-u", "-k", "-f", "g"],
    ["format-values", "-n", "-f", "%.3lf", "then", "nothing"], ["histogram", "-f", "k", "--lo", "0", "--hi", "10", "--nbins", "2", "then", "nothing"],
    ["most-frequent", "-f", "x", "then", "nothing"], ["seqgen", "--start", "1", "--stop", "0", "then", "nothing"], ["split-join is absent"],
]
# entries that are not real commands (placeholders above) are dropped at import
READERS = [r for r in READERS if not any("is absent" in a for a in r) and r[0] not in ("fill-empty",)]
READERS.append(["fill-empty", "-v", "X", "--only-if-blank"])
# verbs that move a bystander to a new name, and verbs that create a field under a (possibly vacated) bystander name:
# the value must follow the rename and must not be touched by a later assignment to the vacated name
RENAMERS = [["rename", "y,yy"], ["rename", "x,x2"], ["rename", "-r", "^z9$,zz9"], ["reorder", "-e", "-f", "y"]]
CREATORS = [["put", "$y = NR"], ["cat", "-N", "y"], ["count-similar", "-g", "g", "-o", "y"], ["put", "$x = 1"], ["put", "unset $y"], ["cut", "-x", "-f", "y"], ["put", '$z9 = "n"']]
READERS += RENAMERS + CREATORS
READERS += RENAMERS  # weight


def track(chain, bys):
    """Returns {output_name: origin_bystander} for bystanders whose value no verb assigned."""
    m = {b: b for b in bys}
    for v in chain:
        if v[0] == "put" and "-q" in v and "tee >" in v[-1]:
            # the records leave through the tee at this point of the chain (put -q keeps them out of the main stream): later verbs never see them
            break
        if v[0] == "rename":
            old, new = v[-1].split(",")
            old = old.strip("^$")
            if old in m:
                m[new] = m.pop(old)
            elif new in m:
                m.pop(new)
        elif v in CREATORS:
            name = {"$y = NR": "y", "$x = 1": "x", "unset $y": "y", '$z9 = "n"': "z9"}.get(v[-1]) if v[0] == "put" else ("y")
            m.pop(name, None)
    return m

BY = ["x", "y", "z1", "z2", "z3", "z4", "z5", "z6", "z7", "z8", "z9", "zA"]

byst_value = st.one_of(gen.spelling, gen.spelling, gen.text_cell(exclude=("\n", "\r"), invalid_utf8=True))


@st.composite
def case_strategy(draw):
    n = draw(st.integers(1, 8))
    wide = draw(st.booleans())
    bys = BY if wide else BY[:2]
    fmt = draw(st.sampled_from(["csv", "csv", "tsv", "dkvp"]))
    rows = []
    for i in range(n):
        r = {"id": str(i), "g": draw(st.sampled_from(["a", "b"])), "k": str(draw(st.integers(1, 9)))}
        for b in bys:
            v = draw(byst_value)
            if fmt == "dkvp":
                v = v.replace(",", ";").replace("=", ":")
            r[b] = v
        rows.append(r)
    nverbs = draw(st.integers(1, 3))
    chain = [draw(st.sampled_from(READERS)) for _ in range(nverbs)]
    if draw(st.integers(0, 5)) == 0:
        # a bystander is moved to a new name and a later verb creates/deletes a field under the vacated name
        chain = [draw(st.sampled_from(RENAMERS)), draw(st.sampled_from(CREATORS))] + ([draw(st.sampled_from(READERS))] if draw(st.booleans()) else [])
    flag = draw(st.sampled_from(["", "-S", "-A", "-O"]))
    rpb = draw(st.sampled_from([None, 1, 2]))
    return {"rows": rows, "bys": bys, "chain": chain, "flag": flag, "fmt": fmt, "rpb": rpb}


def canonical_differs(s):
    acc = mn.infer(s, "")
    t, v = acc[0]
    if t == "int" and v is not None:
        return str(v) != s
    if t == "float" and v is not None:
        return mn.fmtf(v) != s
    return False


def body(ctx, case):
    rows, bys, chain, flag, fmt = case["rows"], case["bys"], case["chain"], case["flag"], case["fmt"]
    hdr = ["id", "g", "k"] + bys
    # a verb that renames/relabels/cuts/empties a bystander itself is allowed to: keep only chains that leave them alone
    table = [[r[h] for h in hdr] for r in rows]
    if fmt == "csv":
        text = gen.to_csv(hdr, table)
        io_args = ["--csv"]
    elif fmt == "tsv":
        text = gen.to_tsv(hdr, table)
        io_args = ["--tsv"]
    else:
        text = "".join(",".join("%s=%s" % (h, c) for h, c in zip(hdr, row)) + "\n" for row in table)
        io_args = ["--dkvp"]
    args = ["--seed", "7"] + ([flag] if flag else []) + io_args + (["--records-per-batch", str(case["rpb"])] if case.get("rpb") else [])
    first = True
    for v in chain:
        if not first:
            args.append("then")
        args += v
        first = False
    res = ctx.mlr(args, stdin=gen.bstr_bytes(text))
    if res.panicked or res.timed_out:
        ctx.fail(case, "mlr crashed/hung: rc=%s %s" % (res.rc, res.err[:400].decode("latin-1")))
    if res.rc != 0:
        ctx.label("chain-failed")
        ctx.case(None, False)
        return
    out = gen.bytes_bstr(res.out)
    byid = {r["id"]: r for r in rows}
    recs = []
    try:
        if fmt == "csv":
            # csvlite-like blank-line schema changes do not occur with --csv unless keys change (unsparsify default fills)
            blocks = out.split("\n\n") if False else [out]
            tab = gen.parse_csv(out)
            cur = None
            for line in tab:
                if cur is None:
                    cur = line
                    continue
                if len(line) != len(cur):
                    # new header after a schema change (csv writer prints a blank line + new header) or ragged
                    if line == [""]:
                        cur = None
                        continue
                    cur = line
                    continue
                recs.append(list(zip(cur, line)))
        elif fmt == "tsv":
            tab = gen.parse_tsv(out)
            cur = None
            for line in tab:
                if cur is None:
                    cur = line
                    continue
                if line == [""]:
                    cur = None
                    continue
                if len(line) != len(cur):
                    cur = line
                    continue
                recs.append(list(zip(cur, line)))
        else:
            for ln in out.split("\n"):
                if ln == "":
                    continue
                recs.append([tuple(kv.split("=", 1)) if "=" in kv else (str(i + 1), kv) for i, kv in enumerate(ln.split(","))])
    except csv.Error as e:
        ctx.fail(case, "output is not parseable CSV: %s" % e)
    compared = 0
    nontriv = False
    for rec in recs:
        d = dict(rec)
        rid = d.get("id", d.get("ID"))
        if rid not in byid:
            continue
        src = byid[rid]
        if d.get("g", d.get("h", d.get("G"))) is None and "nest" not in str(chain):
            pass
        tracked = track(chain, bys)
        moved = any(k != o for k, o in tracked.items()) or len(tracked) != len(bys) or any(v[0] == "reorder" and "y" in v for v in chain)
        if not moved:
            order = [k for k, _ in rec if k in bys]
            if order != [b for b in bys if b in order]:
                ctx.fail(case, "relative order of bystanders changed: %r" % order)
        for name, b in tracked.items():
            if name in d:
                compared += 1
                if d[name] != src[b]:
                    ctx.fail(case, "bystander %s (output name %s) of record id=%s: input %r, output %r (args %r)" % (b, name, rid, src[b], d[name], args))
                if canonical_differs(src[b]):
                    nontriv = True
            elif any(n2 in d for n2 in tracked if n2 != name) and not any(v[0] in ("template", "merge-fields") for v in chain):
                ctx.fail(case, "bystander %s (expected under name %s) is missing from record id=%s although its siblings are present (args %r): %r" % (b, name, rid, args, rec))
    ctx.case(case, nontriv and compared > 0, labels=("fmt-" + fmt, "flag" + flag, "wide" if len(bys) > 2 else "narrow"),
             sample={"args": args, "first_row": rows[0]} if nontriv else None)
    ctx.label("fields-compared", compared)


def sub_passthrough(ctx):
    ctx.hyp(case_strategy(), lambda c: body(ctx, c), ctx.n(2700, 24000))


# ---- documented exceptions: JSON output re-renders non-JSON numerals; --ofmt re-renders floats only

JSON_NUM = __import__("re").compile(r"-?(0|[1-9][0-9]*)(\.[0-9]+)?([eE][+-]?[0-9]+)?$")


def body_exceptions(ctx, case):
    vals = case["vals"]
    mode = case["mode"]
    text = gen.to_csv(["id", "x"], [[str(i), v] for i, v in enumerate(vals)])
    if mode == "json":
        res = ctx.mlr(["--icsv", "--ojson", "put", "$t = typeof($x)"], stdin=gen.bstr_bytes(text))
        if res.rc != 0:
            ctx.fail(case, "mlr failed: %s" % res.err[:300])
        try:
            recs = json.loads(res.out.decode("utf-8", "replace"), parse_float=lambda s: ("n", s), parse_int=lambda s: ("n", s))
        except ValueError as e:
            ctx.fail(case, "JSON output invalid: %s; output %r" % (e, res.out[:300]))
            return
        for v, rec in zip(vals, recs):
            acc = mn.infer(v, "")
            x = rec.get("x")
            nt = len(acc) == 1 and acc[0][0] in ("int", "float") and not JSON_NUM.match(v)
            ctx.case(("exc", mode, v), nt)
            if len(acc) != 1:
                continue
            t, val = acc[0]
            if t in ("int", "float"):
                if not (isinstance(x, tuple)):
                    # numbers must be emitted as JSON numbers... unless non-finite
                    ctx.fail({"vals": [v], "mode": mode}, "numeric %r emitted as JSON %r" % (v, x))
                if JSON_NUM.match(v):
                    if x[1] != v:
                        ctx.fail({"vals": [v], "mode": mode}, "legal JSON number %r re-rendered as %r" % (v, x[1]))
                else:
                    # re-rendered: must denote the same value
                    try:
                        g = int(x[1]) if t == "int" else float(x[1])
                    except ValueError:
                        ctx.fail({"vals": [v], "mode": mode}, "re-rendering of %r is %r" % (v, x[1]))
                    if g != val:
                        ctx.fail({"vals": [v], "mode": mode}, "re-rendering of %r is %r (value changed; model %r)" % (v, x[1], val))
            elif t in ("string", "empty"):
                if x != v:
                    ctx.fail({"vals": [v], "mode": mode}, "string %r emitted as %r" % (v, x))
    elif mode == "yaml":
        res = ctx.mlr(["--icsv", "--oyaml", "put", "$t = typeof($x)"], stdin=gen.bstr_bytes(text))
        if res.rc != 0:
            ctx.fail(case, "mlr failed: %s" % res.err[:300])
        out = res.out.decode("utf-8", "replace")
        blocks = __import__("re").split(r"(?m)^- ", out)[1:]
        if len(blocks) != len(vals):
            ctx.fail(case, "YAML output has %d records for %d input records" % (len(blocks), len(vals)))
        for v, blk in zip(vals, blocks):
            acc = mn.infer(v, "")
            if len(acc) != 1:
                continue
            t, val = acc[0]
            ctx.case(("exc", mode, v), t in ("int", "float") and bool(JSON_NUM.match(v)))
            if t not in ("int", "float"):
                continue          # strings would need a YAML parser; the format round trip is C01's subject
            m = __import__("re").search(r'(?m)^(?:  )?"?x"?: (.*)$', blk)
            if not m:
                ctx.fail({"vals": [v], "mode": mode}, "no x line in YAML record %r" % blk[:200])
            x = m.group(1)
            if JSON_NUM.match(v) and (t == "int" or any(c in v for c in ".eE")):
                if x != v:
                    ctx.fail({"vals": [v], "mode": mode}, "YAML output re-renders the legal JSON number %r as %r" % (v, x))
            else:
                # not a legal JSON number (hex, leading +, leading zeros, 1_000 ...) or an integer spelling beyond int64: re-rendered, same value
                y = x.replace("!!float ", "").replace("!!int ", "").strip('"')
                try:
                    g = {".inf": float("inf"), "-.inf": float("-inf"), "+.inf": float("inf")}.get(y)
                    if g is None:
                        g = int(y) if t == "int" else float(y)
                except ValueError:
                    ctx.fail({"vals": [v], "mode": mode}, "YAML re-rendering of %r is %r" % (v, x))
                if g != val and not (g != g and val != val):
                    ctx.fail({"vals": [v], "mode": mode}, "YAML re-rendering of %r is %r (value changed; model %r)" % (v, x, val))
    else:
        ofmt = case["ofmt"]
        res = ctx.mlr(["--icsv", "--ocsv", "--ofmt", ofmt, "put", "$t = typeof($x)"], stdin=gen.bstr_bytes(text))
        if res.rc != 0:
            ctx.fail(case, "mlr failed: %s" % res.err[:300])
        tab = gen.parse_csv(gen.bytes_bstr(res.out))
        for v, row in zip(vals, tab[1:]):
            acc = mn.infer(v, "")
            if len(acc) != 1:
                continue
            t, val = acc[0]
            ctx.case(("exc", mode, ofmt, v), t == "float")
            if t == "float":
                exp = ofmt.replace("lf", "f").replace("le", "e").replace("lg", "g") % val
                if row[1] != exp:
                    ctx.fail({"vals": [v], "mode": mode, "ofmt": ofmt}, "--ofmt %s of float %r: got %r, C printf gives %r" % (ofmt, v, row[1], exp))
            else:
                if row[1] != v:
                    ctx.fail({"vals": [v], "mode": mode, "ofmt": ofmt}, "--ofmt %s touched non-float %r -> %r" % (ofmt, v, row[1]))


def sub_exceptions(ctx):
    safe = st.one_of(gen.spelling, st.integers(-2 ** 70, 2 ** 70).map(str), st.floats(allow_nan=False, allow_infinity=False, width=64).map(repr),
                     st.integers(0, 2 ** 64).map(lambda v: "0x%x" % v), st.sampled_from(["1.500", "0x1F", "1e5", "+3", "1.", ".5", "007", "1_0", "abc"]))
    safe = safe.filter(lambda s: "\n" not in s and "\r" not in s)
    strat = st.one_of(
        st.fixed_dictionaries({"vals": st.lists(safe, min_size=1, max_size=12), "mode": st.just("json")}),
        st.fixed_dictionaries({"vals": st.lists(safe, min_size=1, max_size=12), "mode": st.just("yaml")}),
        st.fixed_dictionaries({"vals": st.lists(safe, min_size=1, max_size=12), "mode": st.just("ofmt"),
                               "ofmt": st.sampled_from(["%.4f", "%.6lf", "%.3e", "%.8le", "%10.3f", "%.0f", "%08.3lf", "%.2lf"])}))
    ctx.hyp(strat, lambda c: body_exceptions(ctx, c), ctx.n(600, 6000))


SUBCHECKS = [
    Sub("passthrough", sub_passthrough, body, shards={"quick": 6, "thorough": 16}, cost=3,
        rule="bystander text and order preserved through chains of reading verbs; see RULE"),
    Sub("documented_exceptions", sub_exceptions, body_exceptions, shards={"quick": 2, "thorough": 4},
        rule="JSON and YAML output re-render exactly the numerals that are not legal JSON numbers (same value); --ofmt re-renders exactly the floats, as C printf"),
]

KNOWN = {}
