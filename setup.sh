#!/bin/sh
# setup_cmd: build everything the checks need from files on disk only (offline).
cd "$(dirname "$0")" || exit 2
set -e
mkdir -p .cache evidence
# ptrace supervisor for C17/C19
if [ -f tools/sysfault.c ]; then
  gcc -O2 -o .cache/sysfault tools/sysfault.c
fi
# regenerate the DSL parser for the current grammar and build mlr (plain and -tags verif)
/usr/local/bin/python3-vt -B -m vlib.build
/usr/local/bin/python3-vt -B -m vlib.build --tags=verif || true
