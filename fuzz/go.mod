module verif/fuzz

go 1.25.0

require github.com/johnkerl/miller/v6 v6.0.0

require (
	github.com/facette/natsort v0.0.0-20181210072756-2cd4dd1e2dcb // indirect
	github.com/johnkerl/lumin v1.0.0 // indirect
	github.com/klauspost/compress v1.19.2 // indirect
	github.com/lestrrat-go/strftime v1.2.0 // indirect
	github.com/mattn/go-isatty v0.0.24 // indirect
	github.com/rivo/uniseg v0.4.7 // indirect
	golang.org/x/sys v0.47.0 // indirect
	golang.org/x/text v0.41.0 // indirect
	gopkg.in/yaml.v3 v3.0.1 // indirect
)

replace github.com/johnkerl/miller/v6 => /repo
