// Native Go fuzz targets for C18 (thorough tier): in-process, coverage-guided. Every target only calls library entry points that
// report problems by return value; the oracle inside each target is "no panic" plus a round-trip or consistency relation.
// A crasher found here is re-judged through the mlr command line by props/c18.py before it counts as a violation.
package fuzz

import (
	"strings"
	"testing"

	"github.com/johnkerl/miller/v6/pkg/lib"
	"github.com/johnkerl/miller/v6/pkg/mlrval"
	strptime "github.com/johnkerl/miller/v6/pkg/pbnjay-strptime"
)

// decodeArg turns a fuzz string into an argument of some kind: the first byte selects the kind.
func decodeArg(s string) *mlrval.Mlrval {
	if s == "" {
		return mlrval.ABSENT
	}
	k, rest := s[0], s[1:]
	switch k % 8 {
	case 0:
		return mlrval.FromInferredType(rest) // int / float / string / empty as from data
	case 1:
		return mlrval.FromString(rest)
	case 2:
		if mv, err := mlrval.TryUnmarshalJSON([]byte(rest)); err == nil && mv != nil {
			return mv // map / array / null / nested
		}
		return mlrval.FromString(rest)
	case 3:
		return mlrval.FromBool(len(rest)%2 == 0)
	case 4:
		return mlrval.FromInt(int64(len(rest)) - 3)
	case 5:
		return mlrval.FromErrorString("fuzz")
	case 6:
		return mlrval.ABSENT
	default:
		return mlrval.FromInferredType(strings.TrimSpace(rest))
	}
}

func use(mv *mlrval.Mlrval) {
	if mv == nil {
		panic("built-in function returned nil")
	}
	_ = mv.Type()
	if !mv.IsMap() && !mv.IsArray() {
		_ = mv.String()
	}
}

func FuzzBIF1(f *testing.F) {
	for _, s := range []string{"\x00123", "\x001.5e3", "\x01abc", "\x02{\"a\":[1,{\"b\":2}]}", "\x00", "\x010x1F", "\x01%Y-%m-%dT%H:%M:%SZ", "\x001d2h3m4s", "\x00-01:02:03", "\x01\xff\xfe"} {
		f.Add(uint16(0), s)
	}
	f.Fuzz(func(t *testing.T, which uint16, a string) {
		e := bifs1[int(which)%len(bifs1)]
		use(e.f(decodeArg(a)))
	})
}

func FuzzBIF2(f *testing.F) {
	seeds := [][2]string{{"\x012023-01-01T00:00:00Z", "\x01%Y-%m-%dT%H:%M:%SZ"}, {"\x001500000000", "\x01%Y-%m-%d %H:%M:%3S %j %a %b %e %p %Z %z %%"}, {"\x0017", "\x01%08.3lf"}, {"\x00-5", "\x003"},
		{"\x01a,b,c", "\x01,"}, {"\x02[1,2,3,4,5]", "\x0050"}, {"\x02{\"a\":1}", "\x01a"}, {"\x01hello", "\x00-2"}, {"\x009223372036854775807", "\x002"}, {"\x00", "\x00"}, {"\x01x=3;y=4", "\x01;"}}
	for _, s := range seeds {
		f.Add(uint16(0), s[0], s[1])
	}
	f.Fuzz(func(t *testing.T, which uint16, a, b string) {
		e := bifs2[int(which)%len(bifs2)]
		use(e.f(decodeArg(a), decodeArg(b)))
	})
}

func FuzzBIF3(f *testing.F) {
	seeds := [][3]string{{"\x01hello", "\x002", "\x004"}, {"\x005", "\x003", "\x007"}, {"\x01abc", "\x0010", "\x01*"}, {"\x02[1,2,3]", "\x0025", "\x02{\"interpolate_linearly\":true}"},
		{"\x01a=1,b=2", "\x01,", "\x01="}, {"\x001500000000", "\x01%Y-%m-%d", "\x01Asia/Tokyo"}, {"\x01{}:{}", "\x003", "\x01x"}}
	for _, s := range seeds {
		f.Add(uint16(0), s[0], s[1], s[2])
	}
	f.Fuzz(func(t *testing.T, which uint16, a, b, c string) {
		e := bifs3[int(which)%len(bifs3)]
		x, y, z := decodeArg(a), decodeArg(b), decodeArg(c)
		if strings.Contains(e.name, "pad") {
			// a pad width is an allocation request: 333333330 x a 2-byte pad string is a legitimate 600 MB, not a crash
			if n, ok := y.GetIntValue(); ok && n > 1000000 {
				return
			}
		}
		use(e.f(x, y, z))
	})
}

// FuzzInfer: a value inferred from data keeps its original text (the statement of C03/C06 seen from the library).
func FuzzInfer(f *testing.F) {
	for _, s := range []string{"0", "-0", "0x1F", "0b101", "1e5", "1_000", ".5", "5.", "+3", "1e309", "0o17", "Inf", "NaN", "abc", "", "007", "1.2.3", "0x", "-0x8000000000000000", "9223372036854775808"} {
		f.Add(s)
	}
	f.Fuzz(func(t *testing.T, s string) {
		mv := mlrval.FromInferredType(s)
		_ = mv.Type()
		if got := mv.String(); got != s {
			t.Fatalf("FromInferredType(%q).String() = %q", s, got)
		}
	})
}

// FuzzJSON: decoding never panics; a decoded value encodes to text that decodes again to the same text.
func FuzzJSON(f *testing.F) {
	for _, s := range []string{`{"a":1}`, `[1,[2,[3]]]`, `{"a":{"b":[1,{"c":null}]},"d":"xé"}`, `1e400`, `"\ud800"`, `{"a":1,"a":2}`, `[`, `{"a"`, `0x1F`, `-0`, `{"":""}`, `[{}]`} {
		f.Add([]byte(s))
	}
	f.Fuzz(func(t *testing.T, data []byte) {
		mv, err := mlrval.TryUnmarshalJSON(data)
		if err != nil || mv == nil {
			return
		}
		out1, err := mv.FormatAsJSON(mlrval.JSON_SINGLE_LINE, false)
		if err != nil {
			return
		}
		mv2, err := mlrval.TryUnmarshalJSON([]byte(out1))
		if err != nil {
			if strings.Contains(string(out1), "(error)") {
				return
			}
			t.Fatalf("re-decoding %q (from %q) fails: %v", out1, data, err)
		}
		out2, _ := mv2.FormatAsJSON(mlrval.JSON_SINGLE_LINE, false)
		if string(out1) != string(out2) {
			t.Fatalf("JSON text not stable: %q then %q (input %q)", out1, out2, data)
		}
	})
}

func FuzzStrptime(f *testing.F) {
	seeds := [][2]string{{"2023-01-01T00:00:00Z", "%Y-%m-%dT%H:%M:%SZ"}, {"12/31/98", "%m/%d/%y"}, {"1970-01-01 00:00:00 -0400", "%Y-%m-%d %H:%M:%S %z"}, {"Mar  4 2021", "%b %e %Y"}, {"100% 2023", "100%% %Y"},
		{"1500000000.123456", "%s.%f"}, {"23h", "%Hh"}, {"-", "%Y-%m"}, {"", "%"}, {"2023", "%Y%%"}, {"12 PM", "%I %p"}, {"2023-060", "%Y-%j"}}
	for _, s := range seeds {
		f.Add(s[0], s[1])
	}
	f.Fuzz(func(t *testing.T, input, format string) {
		_, _ = strptime.Parse(input, format)
		_, _ = strptime.ParseLocal(input, format)
	})
}

func FuzzUnbackslashAndRegex(f *testing.F) {
	for _, s := range []string{`a\tb`, `\x41é`, `\`, `"a.*b"i`, `(a)(b)?`, `[a-`, `\1\2`, `\.`, `^$`, `a{2,1}`, `\d+`, `(?i)x`, `"x"`, `"i`, `/i`, `""`, `"`, `//`} {
		f.Add(s)
	}
	f.Fuzz(func(t *testing.T, s string) {
		_ = lib.UnbackslashStringLiteral(s)
		re, err := lib.CompileMillerRegex(s)
		if err == nil && re != nil {
			_, matrix := lib.ReplacementHasCaptures(`<\1|\0>`)
			_ = lib.RegexCompiledSub("abcabc é 123", re, `<\1|\0>`, matrix)
			_ = lib.RegexCompiledMatchSimple("abcabc é 123", re)
			_ = lib.RegexCompiledSplitString(re, "a,b;c d", -1)
		}
	})
}
