#!/bin/sh
# usage: tools/try_mutant.sh <PROP> <patch.diff> [extra check args]
# MUT_BASE=<commit> applies it to that commit instead of HEAD (for patches that conflict with later hook/fix commits).
# Applies the patch to a scratch worktree of /repo (never to /repo itself), runs the check against it, removes the worktree.
PROP=$1; PATCH=$2; shift 2
WT=/tmp/mutwt-$$
git -C /repo worktree add -q --detach $WT ${MUT_BASE:-HEAD} || exit 2
if ! git -C $WT apply "$PATCH" 2>/dev/null && ! git -C $WT apply --3way "$PATCH" 2>/dev/null && ! (cd $WT && patch -p1 -s -F3 < "$PATCH"); then echo "PATCH DOES NOT APPLY"; git -C /repo worktree remove --force $WT; exit 2; fi
cd /verif && VERIF_REPO=$WT ./check $PROP --no-evidence "$@"
rc=$?
git -C /repo worktree remove --force $WT
echo "try_mutant: exit=$rc"
exit $rc
