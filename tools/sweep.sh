#!/bin/sh
# usage: tools/sweep.sh <tier> <seed>...   runs every claimed check at the given seeds, prints one line per run and all alarms
cd "$(dirname "$0")/.." || exit 2
TIER=$1; shift
IDS=$(python3 -c "import json; print(' '.join(c['property_id'] for c in json.load(open('MANIFEST.json'))['checks']))")
for s in "$@"; do for id in $IDS; do
  out=$(./check $id --tier $TIER --seed $s --no-evidence 2>&1); rc=$?
  echo "$id seed=$s rc=$rc $(echo "$out" | grep "^\[$id\] tier" | cut -c1-140)"
  if [ $rc -ne 0 ]; then echo "$out" | grep -A3 "VIOLATION\|INCONCLUSIVE\|harness error" | cut -c1-600 | head -30; fi
done; done
