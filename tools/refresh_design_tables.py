#!/usr/bin/env python3
"""Regenerates the tables of DESIGN.md section 9.4 (findings) from known_findings.json and 9.5 (seeded changes) from seeded/RESULTS.md."""
import json, re, os
root = os.path.dirname(os.path.dirname(os.path.abspath(__file__)))
d = json.load(open(os.path.join(root, "known_findings.json")))
p = os.path.join(root, "DESIGN.md")
s = open(p).read()
rows = []
for f in d["findings"]:
    if f["status"] != "fixed":
        continue
    what = re.sub(r"^fixed: property=C\d+ [0-9a-f]+ ", "", f["what"]).replace("|", "\\|").replace("\n", " ")
    rows.append("| %s | %s | `%s` | %s |" % (f["property"], f["id"], f["commit"], what))
rows.sort(key=lambda r: r.split("|")[1])
hdr = "| property | id | commit | what failed |\n|---|---|---|---|\n"
a = s.index(hdr) + len(hdr)
b = s.index("\n\n**Recorded, not repaired**")
s = s[:a] + "\n".join(rows) + s[b:]
rows = []
for f in d["findings"]:
    if f["status"] == "known":
        rows.append("| %s | %s | %s |" % (f["property"], f["id"], f["what"].replace("|", "\\|").replace("\n", " ")))
hdr = "| property | id | what fails, and why it was not repaired |\n|---|---|---|\n"
a = s.index(hdr) + len(hdr)
b = s.index("\n\nReasons for not repairing:")
s = s[:a] + "\n".join(rows) + s[b:]
res = open(os.path.join(root, "seeded", "RESULTS.md")).read()
res = res[res.index("| id |"):].rstrip("\n")
a = s.index("| id | property | what it breaks |")
b = s.index("\n\n### 9.6")
s = s[:a] + res + s[b:]
open(p, "w").write(s)
print("fixed: %d, known: %d" % (sum(1 for f in d["findings"] if f["status"] == "fixed"), sum(1 for f in d["findings"] if f["status"] == "known")))
