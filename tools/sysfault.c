// sysfault prototype: ptrace supervisor with a GLOBAL syscall counter across all threads.
// usage: sysfault list|kill|killx|fail  N ERRNO  LOGFILE  -- cmd args...
//   list : log every "interesting" syscall (global index, tid, name, brief args)
//   kill : SIGKILL the whole process on ENTRY to the N-th interesting syscall
//   killx: SIGKILL on EXIT of the N-th interesting syscall (after it took effect)
//   fail : make the N-th interesting syscall fail with -ERRNO (skipped)
// "interesting": write pwrite64 writev openat(with O_WRONLY|O_RDWR|O_CREAT) close(of such fds) rename renameat renameat2
//                unlink unlinkat chmod fchmod fchmodat ftruncate fsync fdatasync
//   restricted to fds > 2 opened for writing by the tracee unless env SYSFAULT_STDOUT=1 (then fd 1 too)
#define _GNU_SOURCE
#include <stdio.h>
#include <stdlib.h>
#include <string.h>
#include <errno.h>
#include <signal.h>
#include <unistd.h>
#include <fcntl.h>
#include <sys/ptrace.h>
#include <sys/wait.h>
#include <sys/user.h>
#include <sys/syscall.h>

#define MAXT 4096
static struct { pid_t tid; int insys; long nr; int tamper; int isint; long a0,a1,a2; } T[MAXT];
static int nT=0;
static unsigned char wfd[65536]; // fds opened for writing (process-wide; threads share fd table)
static int find(pid_t t){ for(int i=0;i<nT;i++) if(T[i].tid==t) return i; T[nT].tid=t; T[nT].insys=0; return nT++; }

static const char* name(long nr){
  switch(nr){
    case SYS_write: return "write"; case SYS_pwrite64: return "pwrite64"; case SYS_writev: return "writev";
    case SYS_openat: return "openat"; case SYS_close: return "close";
    case SYS_rename: return "rename"; case SYS_renameat: return "renameat"; case SYS_renameat2: return "renameat2";
    case SYS_unlink: return "unlink"; case SYS_unlinkat: return "unlinkat";
    case SYS_chmod: return "chmod"; case SYS_fchmod: return "fchmod"; case SYS_fchmodat: return "fchmodat";
    case SYS_ftruncate: return "ftruncate"; case SYS_fsync: return "fsync"; case SYS_fdatasync: return "fdatasync";
  } return NULL;
}
static void readstr(pid_t pid, unsigned long addr, char*buf, int n){
  int i=0; while(i<n-1){ errno=0; long w=ptrace(PTRACE_PEEKDATA,pid,addr+i,0); if(errno) break;
    memcpy(buf+i,&w,sizeof w); for(int k=0;k<(int)sizeof w;k++){ if(buf[i+k]==0){ return; } } i+=sizeof w; } buf[i< n? i: n-1]=0; }

int main(int argc,char**argv){
  if(argc<7){ fprintf(stderr,"usage\n"); return 2; }
  const char*mode=argv[1]; long N=atol(argv[2]); int err=atoi(argv[3]); FILE*log=fopen(argv[4],"w");
  int ci=5; if(strcmp(argv[ci],"--")==0) ci++;
  int want_stdout = getenv("SYSFAULT_STDOUT")!=NULL;
  pid_t child=fork();
  if(child==0){ ptrace(PTRACE_TRACEME,0,0,0); raise(SIGSTOP); execvp(argv[ci],argv+ci); _exit(127); }
  int st; waitpid(child,&st,0);
  ptrace(PTRACE_SETOPTIONS,child,0,PTRACE_O_TRACESYSGOOD|PTRACE_O_TRACECLONE|PTRACE_O_TRACEFORK|PTRACE_O_TRACEVFORK|PTRACE_O_TRACEEXEC|PTRACE_O_EXITKILL);
  ptrace(PTRACE_SYSCALL,child,0,0);
  long counter=0; int exitcode=-1; int live=1; find(child);
  if(want_stdout) wfd[1]=1, wfd[2]=0;
  while(live>0){
    pid_t t=waitpid(-1,&st,__WALL); if(t<0) break;
    int i=find(t);
    if(WIFEXITED(st)||WIFSIGNALED(st)){ if(t==child){ exitcode= WIFEXITED(st)? WEXITSTATUS(st): 128+WTERMSIG(st);} 
      // remove
      T[i]=T[--nT]; if(nT==0) break; continue; }
    if(!WIFSTOPPED(st)) continue;
    int sig=WSTOPSIG(st);
    if(sig==(SIGTRAP|0x80)){
      struct user_regs_struct r; ptrace(PTRACE_GETREGS,t,0,&r);
      if(!T[i].insys){ // entry
        T[i].insys=1; T[i].nr=r.orig_rax; T[i].tamper=0; T[i].isint=0; T[i].a0=r.rdi; T[i].a1=r.rsi; T[i].a2=r.rdx;
        const char*nm=name(r.orig_rax); int interesting=0; char path[256]=""; 
        if(nm){
          long nr=r.orig_rax;
          if(nr==SYS_write||nr==SYS_pwrite64||nr==SYS_writev||nr==SYS_fchmod||nr==SYS_ftruncate||nr==SYS_fsync||nr==SYS_fdatasync||nr==SYS_close){ int fd=(int)r.rdi; interesting = fd>=0&&fd<65536&&wfd[fd]; }
          else if(nr==SYS_openat){ int fl=(int)r.rdx; readstr(t,r.rsi,path,sizeof path); interesting = (fl&(O_WRONLY|O_RDWR|O_CREAT))!=0 && strncmp(path,"/dev/",5)!=0 && strncmp(path,"/proc/",6)!=0; }
          else { interesting=1; unsigned long pa = (nr==SYS_rename||nr==SYS_unlink||nr==SYS_chmod)? r.rdi: r.rsi; readstr(t,pa,path,sizeof path); }
        }
        if(interesting){ counter++; T[i].isint=1;
          if(log){ fprintf(log,"%ld %d %s fd=%ld path=%s len=%ld\n",counter,t,nm,(long)r.rdi,path,(long)r.rdx); fflush(log);} 
          if(counter==N){
            if(!strcmp(mode,"kill")){ kill(child,SIGKILL); }
            else if(!strcmp(mode,"fail")){ r.orig_rax=-1; ptrace(PTRACE_SETREGS,t,0,&r); T[i].tamper=1; }
            else if(!strcmp(mode,"killx")){ T[i].tamper=2; }
          }
        }
      } else { // exit
        T[i].insys=0;
        if(T[i].nr==SYS_openat && T[i].isint){ long fd=r.rax; if(fd>=0&&fd<65536) wfd[fd]=1; }
        if(T[i].nr==SYS_close && (long)r.rax==0){ int fd=(int)T[i].a0; if(fd>=0&&fd<65536 && !(want_stdout&&fd==1)) wfd[fd]=0; }
        if(T[i].tamper==1){ r.rax=-(long)err; ptrace(PTRACE_SETREGS,t,0,&r); }
        if(T[i].tamper==2){ kill(child,SIGKILL); }
      }
      ptrace(PTRACE_SYSCALL,t,0,0);
    } else if(sig==SIGTRAP && (st>>16)!=0){ // clone/fork/exec event
      ptrace(PTRACE_SYSCALL,t,0,0);
    } else if(sig==SIGSTOP && T[i].insys==0 && t!=child){ // new thread initial stop
      ptrace(PTRACE_SYSCALL,t,0,0);
    } else { ptrace(PTRACE_SYSCALL,t,0,sig==SIGTRAP?0:sig); }
  }
  if(log){ fprintf(log,"TOTAL %ld EXIT %d\n",counter,exitcode); fclose(log);} 
  return exitcode<0? 3: exitcode;
}
