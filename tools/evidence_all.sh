#!/bin/sh
# usage: tools/evidence_all.sh <tier>   runs every claimed check once at the default seed, writing evidence/<id>.json; one line per run and all alarms
cd "$(dirname "$0")/.." || exit 2
TIER=${1:-quick}
IDS=$(python3 -c "import json; print(' '.join(c['property_id'] for c in json.load(open('MANIFEST.json'))['checks']))")
for id in $IDS; do
  out=$(./check $id --tier $TIER 2>&1); rc=$?
  echo "$id rc=$rc $(echo "$out" | grep "^\[$id\] tier" | cut -c1-160)"
  if [ $rc -ne 0 ]; then echo "$out" | grep -A3 "VIOLATION\|INCONCLUSIVE\|harness error" | cut -c1-700 | head -40; fi
done
