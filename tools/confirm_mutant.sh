#!/bin/sh
# usage: tools/confirm_mutant.sh <PROP> <mutant-dir-from-agent> <name>
# Independently confirms a seeded change: applies to a scratch worktree, builds, runs the existing test suite, runs the demo
# against the base and mutant binaries; archives it under /verif/seeded/<PROP>-<name>/ with the confirmation record.
PROP=$1; SRC=$2; NAME=$3
OUT=/verif/seeded/$PROP-$NAME
WT=/tmp/confwt-$$
mkdir -p $OUT
cp $SRC/patch.diff $OUT/patch.diff; cp $SRC/demo.sh $OUT/demo.sh 2>/dev/null || cp $SRC/demo.py $OUT/ 2>/dev/null; cp $SRC/meta.json $OUT/meta.agent.json
git -C /repo worktree add -q --detach $WT ${MUT_BASE:-HEAD} || exit 2
APPLY=ok; git -C $WT apply $OUT/patch.diff || APPLY=fail
BUILD=fail; /tmp/mutkit/mk.sh $WT /tmp/confmlr-$$ >/tmp/confbuild-$$.log 2>&1 && BUILD=ok
TESTS=$(nice /tmp/mutkit/tests.sh $WT 2>&1 | head -1)
[ -x /tmp/mutkit/mlr-base ] || /tmp/mutkit/mk.sh /repo /tmp/mutkit/mlr-base
DEMO=$OUT/demo.sh; chmod +x $DEMO
(cd /tmp && MLRRC=__none__ timeout 900 $DEMO /tmp/mutkit/mlr-base >/dev/null 2>&1); RB=$?
(cd /tmp && MLRRC=__none__ timeout 900 $DEMO /tmp/confmlr-$$ >/dev/null 2>&1); RM=$?
python3 - "$OUT" "$PROP" "$APPLY" "$BUILD" "$TESTS" "$RB" "$RM" <<'PY'
import json,sys
out,prop,apply_,build,tests,rb,rm=sys.argv[1:]
try: a=json.load(open(out+'/meta.agent.json'))
except Exception: a={}
m={"property":prop,"title":a.get("title"),"breaks":a.get("what_it_breaks"),"needs_to_manifest":a.get("needs_to_manifest"),"files_changed":a.get("files_changed"),
   "confirmed_by_me":{"patch_applies":apply_,"builds":build,"existing_tests":tests,"demo_exit_base":int(rb),"demo_exit_mutant":int(rm),
     "what_i_ran":["git worktree add /tmp/confwt-N HEAD; git apply patch.diff","/tmp/mutkit/mk.sh <wt> <bin> (go build with parser overlay)","go test -json -vet=off ./... compared with the 211 baseline-passing tests","demo.sh <base binary>; demo.sh <mutant binary>"]},
   "checks_result":"see DESIGN.md seeded-change table"}
json.dump(m,open(out+'/meta.json','w'),indent=1)
print(out, apply_, build, tests, "base=%s mutant=%s"%(rb,rm))
PY
rm -f /tmp/confmlr-$$ /tmp/confbuild-$$.log
git -C /repo worktree remove --force $WT
