#!/usr/bin/env python3
"""Regenerates /verif/MANIFEST.json from the table below (only properties whose props/cNN.py exists and
that are listed in CLAIMED are claimed; the rest go to not_applicable with the reason given)."""
import json
import os

V = os.path.dirname(os.path.dirname(os.path.abspath(__file__)))

BASELINE_OFF = ("for m in $(cat /w/out/gomods.txt); do MF=$(cd /repo/$m && . /w/out/goenv.sh && gomodflag); "
                "(cd /repo/$m && go test $MF -json -vet=off -count=1 -timeout 25m ./...); done")

CLAIMED = {
    "C07": {
        "level": "exploration",
        "technique": "property-based testing: exhaustive boundary-grid enumeration + Hypothesis random operands against a Python big-int/IEEE-754 reference model",
        "text": ("Every int64/float64 operator cell (20 binary, 9 unary, 4 modular operators) over the cross product of a boundary grid "
                 "(0, +-1, +-2^k+-1 for k<=63, +-2^63 neighbourhoods, sqrt(2^63) factor pairs, +-0.0, +-Inf, NaN, 2^53+-1, subnormals) "
                 "is enumerated completely, plus Hypothesis-random operands; operands travel as data fields through the real CLI "
                 "(and as DSL literals for a sample); typeof() and value are compared with a Python model of the documented rules "
                 "(exact-or-float, floor division, divisor-sign modulus, two's complement dot/bit operators, exact modular arithmetic). "
                 "Crash oracle on every cell. Search, not proof: holds on everything explored."),
        "note": ("Trusted: Python int/float/math, numpy float formatting, TSV observation. Where statement and reference-main-arithmetic.md "
                 "disagree (products within 1024 of 2^63; roundm beyond 2^51; shift counts outside 0..63; float pow with huge exponents or "
                 "subnormals; float % with unrepresentable quotient) both outcomes are accepted and counted as 'underdetermined'."),
        "design_ref": "DESIGN.md section 4 C07",
    },
    "C06": {
        "level": "exploration",
        "technique": "property-based testing: exhaustive enumeration of short strings over a numeric alphabet + Hypothesis-mutated numerals against a regex model of the documented number grammar",
        "text": ("All strings up to length 3 (quick) / 4 (thorough) over a 22-symbol numeric alphabet, every grammar production at boundary "
                 "magnitudes (2^63, 2^64, 1e308/1e309, 400 digits) with sign/prefix/leading-zero variants, and Hypothesis one-edit mutations of "
                 "valid numerals are fed as field values under default/-S/-A/-O through CSV, DKVP, JSON-string and JSON-number contexts; "
                 "typeof, is_* predicates, $x+0, fmtifnum, retained text and `sort -nf` placement must all agree with one classification "
                 "computed by an independent regex model of the documented grammar. Search, not proof."),
        "note": ("Trusted: the transcription of the documented grammar in vlib/model_num.py:infer; Python int()/float(). Underdetermined by "
                 "docs (accepted either way, counted): prefixed literals beyond 64 bits, signed/binary/octal literals with the top bit set, "
                 "leading-zero floats, numerals overflowing to +-Inf. DSL literals are only sampled (statement is about field values)."),
        "design_ref": "DESIGN.md section 4 C06",
    },
    "C03": {
        "level": "exploration",
        "technique": "property-based testing: Hypothesis-generated streams and verb chains, byte-exact metamorphic pass-through oracle via an independent CSV/TSV reader",
        "text": ("Generated streams (2 or 12 bystander fields holding hex/binary/octal/leading-zero/exponent/excess-digit spellings and hostile byte "
                 "strings incl. invalid UTF-8) run through chains of 1-3 verbs/DSL programs drawn from ~95 variants that read but never assign the "
                 "bystanders, under default/-S/-A/-O, batch sizes 1/2/500 and CSV/TSV/DKVP; every output record is traced by id and each bystander's "
                 "bytes and relative order compared with the input. Second sub-check pins the two documented exceptions (JSON output re-renders exactly "
                 "the non-JSON numerals, value preserved; --ofmt re-renders exactly the floats as C printf)." " The documented-exceptions sub-check also covers YAML output: numerals that are legal JSON numbers keep their text, the others are re-rendered with the same value."),
        "note": "Trusted: Python csv as RFC-4180 codec, my IANA-TSV codec, vlib/model_num.infer for the exception sub-check. Verbs outside the pool are not covered.",
        "design_ref": "DESIGN.md section 4 C03",
    },
    "C01": {
        "level": "exploration",
        "technique": "property-based testing: Hypothesis-generated record streams per format domain; round-trip, idempotence and differential oracles against independent Python CSV/TSV/JSON codecs",
        "text": ("For 13 formats (csv, tsv, csvlite, tsvlite, json, jsonl, yaml, dkvp, dkvpx, nidx, xtab, pprint incl. --barred/--right, markdown) x option "
                 "variants (quote-all, custom/multi-char/named separators, implicit header + headerless output, --ors crlf, BOM, --lazy-quotes, jvstack/jlistwrap/"
                 "jvquoteall, xvright, records-per-batch 1/2) Hypothesis builds record streams inside the format's documented domain from hostile atoms and "
                 "checks five oracles per case: independent writer -> Miller reader, Miller writer -> Miller reader, Miller writer -> independent strict reader "
                 "(csv/tsv/json/jsonl), byte idempotence of `mlr --fmt cat` on its own output, and CRLF / missing-final-newline re-termination."),
        "note": ("Trusted: Python csv/json, my TSV codec, the per-format Domain table in props/c01.py (derived from file-formats.md; each narrowing is listed in "
                 "DESIGN.md changelog). YAML has no independent parser offline (Miller-to-Miller only). Known findings (CRLF inside quoted CSV/DKVPX field, YAML key "
                 "order, markdown pipe un-escaping) are matched by exact predicates and still counted; other faults on those inputs are still reported."),
        "design_ref": "DESIGN.md section 4 C01",
    },
    "C09": {
        "level": "exploration",
        "technique": "property-based testing: Hypothesis-generated streams and key/flag lists; validity-predicate oracle (ordered permutation under a Python model of the documented collation)",
        "text": ("Generated streams (0-40 records, 1-3 sort keys mixing ints, floats, numerically-equal spellings, hex, negatives, empties, case variants, "
                 "punctuation, missing keys, >12 groups) through `sort` with -f -r -c -cr -n -nf -nr -t -tr [-b] at batch sizes 1/3/500: output must be a "
                 "permutation of byte-identical records, key-less records last in input order, adjacent keyed records non-decreasing under the documented "
                 "collation, identical key texts in input order. Same predicate for DSL sort (flag strings, user comparators, maps by key/value), top, "
                 "sort-within-records."),
        "note": ("Nothing is asserted about compare-equal records with different key texts (statement is silent). Natural sort only on letters+digits without "
                 "leading zeros. Numeric keys exactly representable as doubles. sort_by_key/sort_by_value do not exist in this tree (function table) and are not checked."),
        "design_ref": "DESIGN.md section 4 C09",
    },
    "C13": {
        "level": "exploration",
        "technique": "property-based testing: Hypothesis-generated left/right streams and option sets against a nested-loop reference join (model-based) plus -s/-u differential",
        "text": ("Generated left files and right streams (0-10 records each, duplicate and empty join values, records lacking join fields, colliding "
                 "non-join names, 1-2 join fields, empty right stream) with -j/-l/-r, --lp/--rp, --lk, --np/--ul/--ur, --ignore-empty, batch sizes 1/2/500: "
                 "output sequence (paired + unpaired-right in stream order) and unpaired-left multiset equal a nested-loop Python model; with --ul --ur "
                 "every input record is present; on inputs sorted by key (key-less records at random positions) -s and -u give the same multiset, equal to the model."),
        "note": "Trusted: the model in props/c13.py (transcribes the statement and `mlr join --help`). Left-file format overrides and prepipes are not covered.",
        "design_ref": "DESIGN.md section 4 C13",
    },
    "C11": {
        "level": "exploration",
        "technique": "property-based testing: Hypothesis-generated streams x selecting-verb variants; universal 'only selects' oracle by id tracing plus per-verb slicing models and partition/complement laws",
        "text": ("Generated heterogeneous streams (0-14 records, optional group field, number spellings, 13-field records, all-empty records) through "
                 "40 variants of head/tail (k, -k, +k, -g), decimate (-b, -g), filter and filter -x (11 expression templates incl. absent operands), grep "
                 "(-i -v -a), having-fields (6 modes), sample, bootstrap, shuffle (with --seed reproducibility), tac, group-by, group-like, uniq -a (-c), "
                 "skip-trivial-records, nothing, cat -n -g / -N, multi-verb chains, at batch sizes 1/2/3/500: every output record is byte-identical to an input "
                 "record; exact expected subsequence/permutation per verb; filter/-x partition; head k ++ tail +(k+1) = input; counts add up."),
        "note": "Trusted: the slicing models in props/c11.py (from each verb's usage text). decimate -b's treatment of a trailing incomplete group is accepted either way (usage text silent).",
        "design_ref": "DESIGN.md section 4 C11",
    },
    "C02": {
        "level": "exploration",
        "technique": "property-based testing: Hypothesis-generated streams/nested JSON with round-trip and differential (alias vs expansion) oracles; exhaustive enumeration of the keystroke-saver and separator-alias tables",
        "text": ("(1) Generated flat streams in the intersection of 11 formats' domains: A->B->A byte identity and A->B == A->C->B for random ordered triples "
                 "(every format as source, target and intermediate). (2) Generated nested JSON (<=4 deep, empty maps/arrays, records whose only collections "
                 "are empty) -> csv/tsv/dkvp/xtab/pprint -> JSON identity under flatten separators . : ; __, explicit flatten/unflatten verbs == automatic. "
                 "(3) Exhaustive: every --X2Y flag the binary lists (98) plus -p -T -c -t -j --io -i/-o --asv/--usv/--iasv/--ousv forms == hand-written "
                 "expansion, byte-for-byte on 3 streams. (4) Exhaustive: all 28 separator aliases (27 passable as argv) == literal bytes as "
                 "ifs/ofs/ips/ops/irs/ors/fs, 3 regex aliases. (5) Generated .mlrrc files (with/without leading --, trailing comments, blank lines, no final "
                 "newline; via MLRRC, ~/.mlrrc, ./.mlrrc; later command-line flags override; --norc)."),
        "note": ("Trusted: expansion table in props/c02.py (written from the documented letter codes). Arrayify-looking maps (keys 1..n) are skipped and counted. "
                 "[profile] sections and XDG path are not yet covered. Flat-stream keys are generated sorted because of known finding C01 yaml-reader-sorts-keys."),
        "design_ref": "DESIGN.md section 4 C02",
    },
    "C05": {
        "level": "exploration",
        "technique": "property-based testing: Hypothesis-generated chains/streams/file splits; differential oracle (then-chain vs real OS pipe; files together vs apart; every input source vs the plain file) plus Python bookkeeping model for NR/FNR/FILENAME/FILENUM/NF",
        "text": ("(1) Generated JSON streams (narrow and 13-field records) through chains of 2-4 verbs from ~65 variants (incl. rename/reorder followed by by-name "
                 "lookups, positional-name assignment, emit, stats, sort, head -g): `mlr A then B ...` must be byte-identical to `mlr A | mlr B | ...`; text "
                 "pipelines through csv/tsv/dkvp/xtab for non-computing verbs. (2) Generated splits into 1-5 files (empty files, different widths, implicit "
                 "header, csvlite, nidx, json): together == concatenation of each alone; NR/FNR/FILENAME/FILENUM/NF/end-block NR == Python bookkeeping; head -g "
                 "early exit; cat -n --filename --filenum. (3) The same bytes (0-30000 records) via stdin, --from, --mfrom, .gz/.bz2/.z/.zst by extension and "
                 "by flag, --prepipe/--prepipex/--prepipe-gunzip/-zcat, names with spaces and quotes; prepipe cases repeated 3x incl. GOMAXPROCS=1."),
        "note": "Verbs consulting NR/FNR after a record-dropping verb are excluded as the statement says. zstd cases need the zstd binary (skipped and counted if absent). Pipe timing is sampled, not controlled.",
        "design_ref": "DESIGN.md section 4 C05",
    },
    "C12": {
        "level": "exploration",
        "technique": "property-based testing: Hypothesis-generated heterogeneous streams and field lists against dict-manipulation reference models, inverse-pair and partition laws, and verb-vs-DSL differential",
        "text": ("Generated streams (0-6 records over a 5-name universe, 13-field wide records rotated at random, empties/spaces/number spellings) through 38 "
                 "scenarios: cut -f/-o/-x/-r, template, unsparsify (--fill-with, -f), regularize, fill-empty (-v, -S), reorder (-f, -e), rename (plain, -r with "
                 "captures, onto existing names = bystander predicate only), label, sort-within-records, sparsify (-f); laws: cut partition, rename a,b then b,a "
                 "identity, rename then cut -x of the old name, template/cut -f then rename sequences, unsparsify rectangle in first-seen order; inverse pairs "
                 "nest explode/implode (values/pairs, across records/fields), reshape wide-to-long/long-to-wide, flatten/unflatten, json-stringify/json-parse; "
                 "verb == DSL for sec2gmt (-3), fill-empty, sub/gsub/ssub, plus unspace, case, altkv against the documented examples."),
        "note": "Trusted: the models in props/c12.py (from usage texts and reference-verbs.md examples). sub/gsub/ssub/case are compared under -S (the functions are defined on strings). reorder -b/-a/-r and case -s/-t are not covered.",
        "design_ref": "DESIGN.md section 4 C12",
    },
    "C10": {
        "level": "exploration",
        "technique": "property-based testing: Hypothesis-generated streams against first-principles recomputation with exact rational arithmetic (model-based), plus conservation laws",
        "text": ("Generated streams (0-14 records; group fields with join-collision texts a,bc/ab,c; ints, dyadic and decimal floats, constant groups, missing "
                 "group/value fields) through stats1 (count,sum,mean,min,max,var,stddev,meaneb,mode,antimode,distinct_count,minlen,maxlen,median,pN incl. fractional, "
                 "-i), merge-fields (-f/-c/-k, percentiles over several records), count, count-distinct (-u,-n), count-similar, uniq -c/-n/-a -c, step "
                 "(counter,delta,rsum,from-first,shift; shift_lag/lead_n), fraction (-p,-c,-g), histogram, most/least-frequent, fill-down (-f,-a,--all), top, and "
                 "the DSL functions count/sum/mean/variance/stddev/meaneb/minlen/maxlen/distinct_count/mode/null_count/percentiles/sort_collection, at batch sizes "
                 "1/3/500. Exact for counts, sums, extrema, modes and order statistics; moments to 1e-9 on the variance scale and never negative/NaN; groups in "
                 "first-appearance order with exact texts; counts add up." " step: sliding-window averages slwin_m_n, EWMA with explicit and default weights and running products are recomputed per group with Fractions; records are matched by an index field because look-ahead windows reorder groups."),
        "note": ("Clean domain only (numeric values, |x| <= 1e4). What delta/shift give right after a record lacking the value field is undocumented and not "
                 "asserted. Percentile cases with p*n/100 within 1e-9 of an integer for fractional p are skipped. stats1 -s/-w, ewma, slwin, mad, skewness, kurtosis not yet covered."),
        "design_ref": "DESIGN.md section 4 C10",
    },
    "C08": {
        "level": "exploration",
        "technique": "property-based testing: exhaustive operator x operand-kind matrices with a rule-based oracle and model-free commutativity/consistency relations; Hypothesis-generated assignment programs and accumulation streams against a Python fold",
        "text": ("Exhaustive: 35 binary operators/functions x 11 x 11 operand kinds (int, float, boolean, empty, string, array, map, function, error, JSON null, "
                 "absent): absent is the identity, absent op absent = absent, empty-with-number for + - * min max, error propagation with scalars, result kind "
                 "of commutative operators independent of operand order; variadic min/max with 0-3 arguments over 10 kinds (kind independent of argument "
                 "order, absent identity, min/max symmetric); 22 math-library functions of absent; is_*/typeof/asserting_* consistency on every representative. "
                 "Hypothesis: absent right-hand sides (11 forms) assigned with = += *= -= ??= to 12 lvalue kinds change nothing; @sum[$a] += $x / counts / "
                 "min-max folds / .= over heterogeneous JSON and CSV streams (missing and empty cells) == Python fold; `t op= v` == `t = t op v` for 19 operators."),
        "note": ("Rule table transcribed from reference-main-null-data.md and the statement. Underdetermined (both accepted, counted): absent/empty on the left of - and .- "
                 "(docs say both 'returns the other operand' and 'acts like zero'), max with an empty operand (statement vs documented example). One representative value per kind."),
        "design_ref": "DESIGN.md section 4 C08",
    },
    "C15": {
        "level": "exploration",
        "technique": "property-based testing: Hypothesis-generated argument rows evaluated in batches against independent Python references (str on code points, re, hashlib, base64, %-formatting), inverse pairs, and a generated state machine for regex captures",
        "text": ("Rows of (subject with 1-4-byte characters and combining marks, regex from a safe RE2/Python-common subset incl. optional/alternated groups "
                 "with several matches per subject, replacement templates with \\0-\\9, indices in -4..11, multi-byte pad strings, literal patterns) run 10-30 per "
                 "invocation through ~47 function applications: strlen toupper tolower capitalize strip lstrip rstrip collapse_whitespace sub gsub ssub gssub "
                 "=~ !=~ strmatch strmatchx (matched/full_capture/positions, substr1 at reported positions) regextract_or_else substr/substr0/substr1 truncate "
                 "md5 sha1 sha256 sha512 base64 and hex both ways leftpad rightpad format index contains splitax/joinv json_stringify/parse latin1/utf8. "
                 "printf: fmtnum/fmtifnum/hexfmt with generated flags/width/precision/l,ll and d,x,f,e,g; --ofmt on pass-through and computed floats; DSL "
                 "string-literal escape spellings; capture state machine (=~ success/failure/null, sub, UDF frames); digests at block-boundary lengths to 100000 bytes."),
        "note": ("Trusted: Python str/re/hashlib/base64/% formatting. gsub only on patterns that cannot match the empty string; %g without precision and negative ints under %x "
                 "are underdetermined (docs defer to Go's fmt); sub inside an active =~ capture is not specified and not generated. Known finding: lexer rejects \\U, \\a, \\v and astral characters in literals."),
        "design_ref": "DESIGN.md section 4 C15",
    },
    "C16": {
        "level": "exploration",
        "technique": "property-based testing: Hypothesis-generated instants/zones evaluated in batches against Python datetime/zoneinfo (reference model), round trips, inverse pairs and zone-selection metamorphic relations",
        "text": ("Instants uniform over years 1-9999, dense around leap days, year ends, the epoch, +-2^31, and +-8 h (30-min grid) around every UTC-offset "
                 "transition 2005-2030 of 9 IANA zones (incl. 30- and 45-minute offsets, Lord Howe half-hour DST), with negative and dyadic fractional seconds: "
                 "sec2gmt (0-9 decimals), sec2gmtdate, nsec2gmt(date), strftime/strfntime (%Y %m %d %H %M %S %j %a %A %b %B %e %y %I %p %u %w %C %D %F %T %s %1S-%9S), "
                 "strftime_local/sec2localtime/sec2localdate/gmt2localtime == datetime/zoneinfo; gmt2sec, strptime, strpntime, strptime_local, localtime2sec round "
                 "trips (local: only unambiguous wall-clock times); sec2dhms/sec2hms layouts and all inverse pairs on ~1200 integers incl. negatives and floats; "
                 "--tz / TZ / ENV[TZ] select the zone of *_local functions only; sec2gmt/sec2gmtdate verbs == functions, non-numeric unchanged." " Every time function whose help text says 'Leaves non-numbers as-is' (list read from the binary) is called in each arity on non-numeric first arguments; the sec2gmt/sec2gmtdate verbs are compared with the functions on non-numeric values too."),
        "note": "Both sides read /usr/share/zoneinfo. DST overlaps are not asserted (docs silent). datediff, localtime2gmt and %U %W %G %V are not yet covered. nanosecond functions only inside int64 nanoseconds (1678-2262).",
        "design_ref": "DESIGN.md section 4 C16",
    },
    "C19": {
        "level": "fault_enumeration",
        "engine": "pbt-cli+sysfault",
        "technique": "fault injection over generated cases: complete enumeration of crash points (SIGKILL at every file-mutating syscall via a ptrace supervisor) and errno injection, with a directory-state invariant as oracle; Hypothesis generates the cases",
        "text": ("Hypothesis-generated -I cases (1-4 files, dkvp/csv/json, 0 to 2500 records = several write calls, gzip/zlib inputs, modes 0600-0755, 9 verbs "
                 "incl. NR/FNR, begin/end, head) x every file-mutating syscall of the run as listed by tools/sysfault.c (one global counter over all threads): "
                 "SIGKILL on entry and on exit (complete per case up to 60 calls, first/last 25 beyond), ENOSPC/EIO/EBUSY/EACCES/EPERM injected at each call "
                 "(normal error path: non-zero exit, mlr: diagnostic, no temp left), named crash sites of the -tags verif build per file and per written "
                 "record, generated normal-path failures (malformed CSV/JSON, typed-assignment and -x errors, unwritable redirect, CSV schema change in file j "
                 "record k), refusals (URLs, prepipes, bzip2, -n). Invariant after every run: each file holds exactly its original or exactly its complete new "
                 "content (gz/z: valid stream, compared decompressed), files updated strictly in argument order, at most one leftover; success: file == non -I "
                 "output for that file alone, mode preserved, compressed inputs rewritten compressed."),
        "note": ("Crash = process death; durability across power loss (no fsync before rename) is not observable from user space and outside the statement. Needs ptrace; "
                 "if refused at run time the two syscall-level sub-checks are skipped and counted and the named-site sub-check still runs. asserting_* aborts are documented exits and not asserted for temp cleanup."),
        "design_ref": "DESIGN.md section 4 C19",
    },
    "C20": {
        "level": "exploration",
        "technique": "model-based property testing over generated routing histories: partition model + byte differential against the single-target writer + independent well-formedness readers",
        "text": ("Hypothesis generates routing histories (target, record) with 1-7 targets (random revisits) or 257/300/600 targets (round-robin 2-4 rounds, "
                 "'first target again after T others', alternation around the 256-handle boundary) and routes them through split -g/-n/-m/-a with "
                 "--prefix/--suffix/--folder/-j, the tee verb (-a, -p), DSL tee/emit/emitp/emitf/print/printn/dump with > >> | and computed names incl. spaces, "
                 "quotes and non-ASCII, in csv/tsv/json/jsonl/dkvp/xtab/pprint/nidx, at batch sizes 1/2/500, followed by nothing, cat or head; append modes onto "
                 "pre-existing files; `tee then head` on 30000/4000 line-oriented records (tee must still write everything). Oracles: set of target files; each "
                 "file byte-identical to `mlr --o<fmt> cat` (or a Python renderer for dkvp/nidx/jsonl) on exactly its routed records in stream order, after any "
                 "pre-existing prefix; one header / one bracket pair by Python csv/json; main stream == same command without the routing statement."),
        "note": ("Known finding (matched by an exact predicate, still counted): beyond 256 targets an evicted target is re-opened with a fresh writer, so header/bracket "
                 "formats repeat the header/brackets; dkvp/nidx/jsonl beyond capacity are asserted byte-exactly, so lost/misrouted/truncated records there are still caught. "
                 "Pipe targets are limited to 7. Early-exit completeness is timing-dependent and sampled (2 attempts, one on GOMAXPROCS=1)."),
        "design_ref": "DESIGN.md section 4 C20",
    },
    "C17": {
        "level": "fault_enumeration",
        "engine": "pbt-cli+sysfault",
        "technique": "fault injection: Hypothesis-generated (chain, input) cases crossed with enumerated fault kinds, positions relative to the batch boundary, batch sizes and seeded schedule perturbations (-tags verif hook); errno injection at every write via a ptrace supervisor; oracle = non-zero exit + diagnostic + termination",
        "text": ("Fault kinds x positions per generated case: missing file / directory / dangling symlink at index j of n under 11 readers; corrupt and truncated "
                 "gz/bz2/zlib (by extension and --gzin); failing/missing prepipes; malformed CSV (ragged, short, open quote), TSV, JSON (syntax, non-object, "
                 "truncated), YAML at record k in {1, b-1, b, b+1, last, mid} for batch sizes b in {1,2,4,500} incl. rows 499-501 of 1003; DSL failures (typed "
                 "assignment, asserting_*, -x data error, function return type; in begin/end) at record k with the failing verb at chain position 1-3; failing "
                 "verbs (join left file, template file, tee/split to unwritable path); CSV/TSV key change on stdout and on tee/split/emit/tee-redirect targets "
                 "(last record repeated 4x); stdout=/dev/full; stdout pipe closed early; redirects to unwritable paths; pipe sinks that fail; split -n chunk on "
                 "/dev/full; plus ENOSPC/EIO injected at every write/openat/close of the fault-free run for stdout, tee, split and redirect destinations. Each "
                 "under GOMAXPROCS 1/16/default and 10 schedule profiles (untargeted and targeted at the error-post / EOS-forward / writer-done / select sites)."),
        "note": ("Interleavings are sampled, not enumerated (the Go scheduler is not under harness control; the hook widens the explored set). Known findings matched by exact "
                 "predicates: failing prepipe and failing pipe sink exit 0. DKVPX/NIDX/DKVP/XTAB have no documented malformed inputs and are used for the other fault kinds only."),
        "design_ref": "DESIGN.md section 4 C17, section 5",
    },
    "C04": {
        "level": "exploration",
        "technique": "differential property testing across batching/scheduling configurations (metamorphic: the configuration must not matter), seeded schedule perturbation via a build-tag hook, bounded-time termination checks, and an input-arrival state machine for the tail -f contract",
        "text": ("Hypothesis-generated (stream of 0-40 records, 3 or 13 fields, stdin or 1-3 files, JSON or DKVP input; chain of 1-3 verbs from ~55 variants: "
                 "streaming, non-streaming, early-exit incl. head after head and tee before head, print/emit/tee, failing puts, randomized verbs/functions under "
                 "--seed, joins with good/malformed/missing left files, name-moving verbs followed by by-name lookups on lazily indexed wide records) run under 12 "
                 "configurations: --records-per-batch 1,2,3,8,N-1,N,N+1,500 x GOMAXPROCS 1/2/4/16/default x --hash-records/--no-hash-records x --nr-progress-mod x 3 "
                 "seeded schedule-perturbation profiles of the -tags verif build: exit status identical everywhere, stdout identical for successful runs. 10 "
                 "early-exit chains on endless (`yes`, seqgen to 10^12) or huge producers must exit by themselves with the expected prefix at batch sizes 1/2/500. "
                 "tail -f: lines written one at a time to an open pipe (dkvp/nidx/csv/tsv/json in, dkvp/csv/tsv/jsonl/xtab out, 14 streaming chains, "
                 "--records-per-batch 1 --fflush): record i's output must be readable before line i+1 is written. Join left-file error vs end-of-stream: same "
                 "exit status over 48-240 runs per left-file size."),
        "note": ("Interleavings are sampled, not enumerated; a hang must reproduce in 2 of 3 runs at 20 s. Known finding: two random-drawing verbs in one chain under --seed "
                 "share one RNG and are schedule-dependent (class excluded by construction and counted; exit status/termination still asserted). Stdout of failing runs "
                 "is not compared (legitimately batch-dependent). Chains where a record-dropping verb feeds a satisfied head on an endless input are not asserted."),
        "design_ref": "DESIGN.md section 4 C04, section 5",
    },
    "C18": {
        "level": "exploration",
        "technique": "exhaustive enumeration of built-in functions x argument-kind tuples, Hypothesis-driven structure-aware mutation fuzzing of reader inputs, DSL text and verb arguments through the real CLI, and (thorough tier) Go native coverage-guided in-process fuzzing whose crashers are re-judged through the CLI; crash/hang/silent-failure oracle",
        "text": ("Seven sub-checks, all with the same oracle: no Go panic / fatal runtime error / stack trace (exit status 2 with a goroutine trace, or death by signal), termination within a guard, "
                 "bounded output, and a diagnostic on every non-zero exit. (1) every function and operator listed by `mlr help usage-functions-by-class` (266, minus system/exec) applied to every "
                 "tuple of argument kinds int/float/boolean/empty/string/array/map/function/error/JSON-null/absent: arity 1 over 119 values (boundary ints +-2^63, 10^6, NaN, +-Inf, subnormal, -0.0, "
                 "60 hostile strings such as lone %, unbalanced regexes, malformed time formats, invalid UTF-8, 5000-char strings, nested and empty collections, function literals of arity 0-3), "
                 "arity 2 over 23^2 (quick) or 119^2 (thorough) value pairs, arity 3 over 11^3 (a third of them in quick) or 18^3 tuples, variadics at 0-3 arguments; plus 18 indexing/slicing/positional/literal "
                 "constructs and 25 statement forms (indexed assignment, unset, for loops, emit/emitp/emit1 incl. lashed and by-names, dump/print/tee redirects, conditions, typed locals, op-assignments) with "
                 "the same operand tuples; 250 calls per invocation with begin/end markers on stderr so that a fatal mlr: error is attributed and the batch resumes. (2) wrong arity: one argument too "
                 "few/many must give a parse-time error naming the function. (3) 21 reader configurations x 0-3 of 124 main-flag settings x 120 verb chains x 30 writers on documents = valid seeds "
                 "(written by an independent Python writer) under 0-4 structure-aware mutations (truncate/delete/duplicate/insert/replace/swap at structural bytes, 2-2000 repeated separators, 2-400 "
                 "nesting tokens, CR/CRLF/BOM/compression/NUL transforms, 70000-byte fields, 3000 repeated lines) or random bytes/text. (4) 36 fixed large documents (1 MiB fields, 10^5 unbalanced "
                 "brackets/quotes, 400-digit numbers, alias bomb, truncated/oversized gzip, bz2, zlib) x 17 readers x 11 option sets. (5) 55 base programs covering every statement and expression form "
                 "under 0-4 token-level mutations from a 230-token dictionary, 18 nesting shapes up to depth 3000, oversized tokens, x 21 put/filter modes. (6,7) every verb: a valid baseline under 1-3 "
                 "edits with 80 hostile values, and the exhaustive verb x documented flag x hostile value grid. (8) 14 fixed documents/programs nested beyond what the Go stack holds. (9, thorough only) "
                 "/verif/fuzz: seven `go test -fuzz` targets (177 built-in functions by arity with arguments decoded from fuzz bytes, number inference round trip, JSON decode/encode stability, "
                 "strptime, unbackslash + regex compilation), 75 s each; an in-process failure counts only when the same arguments crash the mlr command line."),
        "note": ("Not judged: timeouts of programs that contain while/do/3-part for/func/subr (a programmed loop is not a Miller hang); timeouts on inputs above 64 KiB in the mutation sub-checks (several paths "
                 "are quadratic or cubic in one record's width or nesting depth: 10^4 duplicate keys take 5 s, JSON objects nested 4000 deep take 70 s to print); count-like arguments above 10^5/10^6 "
                 "(leftpad width 2^63 is an allocation failure, not a crash). `Internal coding error` exits without the mlr: prefix are counted (labels/notes), not reported. A hang needs one run beyond the "
                 "guard and two more beyond 120 s. Go-runtime stack exhaustion needs inputs nested > 10^6 deep (5 MB of `[` for JSON, 1 MB of `-` or `(` for the DSL): hand-probed, documented in DESIGN.md, not "
                 "part of the generated domain (depth caps 400/3000)."),
        "design_ref": "DESIGN.md section 4 C18, Appendix A",
    },
    "C14": {
        "level": "exploration",
        "technique": "grammar-directed program generation (Hypothesis) with a differential oracle: an independent Python reference interpreter written from the language reference; plus an exact parse-shape oracle over the documented precedence table and metamorphic relations",
        "text": ("Type-directed random programs over the covered language: expressions over ints/strings/booleans/maps/arrays with arithmetic, bit, comparison, logical, dot, ternary, ?? operators, indexing with "
                 "negative aliases, inclusive slices, map/array literals, ~45 builtins incl. apply/select/sort with function literals; statements: typed and untyped declarations (var str num int bool map arr), "
                 "assignment and op-assignment to locals, fields, ${braced} names, $[expr], positional names/values, $*, oosvars, indexed lvalues with auto-create/auto-deepen/auto-extend and null-gaps, unset, "
                 "if/elif/else, while, do-while, 3-part for (declared / undeclared / outer variable), single-variable, key-value and 2- and 3-key for loops, break/continue, pattern-action, begin/end, "
                 "filter, print, dump, emit1, emit/emitp (by names, partial and full split), emitf; 0-3 user functions (plain, typed, recursive with an accumulator, argument-mutating) and a subroutine with early "
                 "return; deliberate stale reads of out-of-scope names, shadowing declarations, undeclared first assignments, copy-then-mutate sequences, absent right-hand sides, a small share of "
                 "type-violating assignments and re-declarations (documented fatal errors). Each program runs over 0-6 heterogeneous records as put / put -q / put -S; stdout is compared line by line with "
                 "the reference interpreter's output; predicted fatals must give a non-zero exit." " Also run as filter / filter -x with a final bare boolean; higher-order functions apply/select/sort/fold/reduce/any/every with function literals that read enclosing locals; comma print, printn, lashed emit."),
        "note": ("Underdetermined by the documentation and therefore not generated or not judged (counted in evidence under excluded): the name typeof gives booleans (bool/boolean), re-assignment of a typed parameter "
                 "with another type, assignment to the key variables of a multi-key loop, modifying the collection a single-variable loop runs over, absent/error inside collection literals, comparisons "
                 "with absent, emit of maps with leaves at different depths, array index 0, string slices out of bounds. Not covered: tee/redirected output (C20), ENV, regex captures (C15), time functions (C16), positional-name edge cases with collisions, higher-order functions beyond apply/select/sort/any/every/fold/reduce on arrays."),
        "design_ref": "DESIGN.md section 4 C14, Appendix C",
    },
}

NOT_YET = "check not built yet in this session (see DESIGN.md section 8 build order); will be claimed when its sub-checks run"


def main():
    checks = []
    na = []
    ids = ["C%02d" % i for i in range(1, 21)]
    for pid in ids:
        c = CLAIMED.get(pid)
        if c and os.path.exists(os.path.join(V, "props", pid.lower() + ".py")):
            checks.append({
                "property_id": pid,
                "quick_cmd": "./check %s --tier quick" % pid,
                "thorough_cmd": "./check %s --tier thorough" % pid,
                "evidence_file": "/verif/evidence/%s.json" % pid,
                "replay_cmd_template": "./check %s --replay {path}" % pid,
                "engine": c.get("engine", "pbt-cli"),
                "level_claimed": {"category": c["level"], "text": c["text"], "design_ref": c.get("design_ref", "DESIGN.md section 4")},
                "level_note": c["note"],
                "technique": c["technique"],
            })
        else:
            na.append({"property_id": pid, "reason": (c or {}).get("na_reason", NOT_YET)})
    hooks_commits = []
    hc = os.path.join(V, "hooks_commits.txt")
    if os.path.exists(hc):
        hooks_commits = [l.strip() for l in open(hc) if l.strip()]
    m = {
        "version": 1,
        "setup_cmd": "./setup.sh",
        "hooks": {
            "guard": "verif",
            "enable": "go build -tags verif -overlay <generated parser overlay> -o mlr-verif ./cmd/mlr (done by vlib/build.py; used by C04/C17/C19 only)",
            "baseline_off_cmd": BASELINE_OFF,
            "source_commits": hooks_commits,
            "add_only": True,
        },
        "engines": [
            {"name": "pbt-cli", "path": "/verif/check", "serves_properties": [c["property_id"] for c in checks],
             "kind_free_text": "Hypothesis 6.168 strategies/state machines and exhaustive enumerations driving the real mlr binary (built from /repo's working tree with the regenerated parser) against Python reference models, round trips, differential and metamorphic oracles; 16-way process sharding"},
            {"name": "sysfault", "path": "/verif/tools/sysfault.c", "serves_properties": [p for p in ("C17", "C19") if p in [c["property_id"] for c in checks]],
             "kind_free_text": "ptrace supervisor with a global syscall counter: list / kill-at-N / fail-at-N with errno, for fault and crash-point enumeration"},
            {"name": "go-native-fuzz", "path": "/verif/fuzz", "serves_properties": ["C18"],
             "kind_free_text": "Go native coverage-guided fuzzing (go test -fuzz) of library entry points of the current tree (module replaced by /repo), seven targets, thorough tier of C18 only; crashers are re-judged through the mlr command line by props/c18.py"},
        ],
        "checks": checks,
        "not_applicable": na,
        "notes": ("All checks rebuild mlr from /repo's current working tree (fingerprint-keyed cache under /verif/.cache). "
                  "Exit 0 = held (KNOWN-FINDING lines possible), 1 = VIOLATION, 2 = inconclusive (build failure / harness trouble). "
                  "known_findings.json lists genuine defects: fixed ones (fix: commits in /repo) and known ones."),
    }
    with open(os.path.join(V, "MANIFEST.json"), "w") as f:
        json.dump(m, f, indent=1)
    print("claimed:", [c["property_id"] for c in checks])


if __name__ == "__main__":
    main()
