#!/bin/sh
# usage: tools/seeded_all.sh [tier]   applies every seeded change under seeded/ to a scratch worktree of /repo HEAD (never /repo itself),
# runs the property's check against it and prints one line per change: caught (exit 1), missed (exit 0) or not applicable (patch conflicts with later fixes).
cd "$(dirname "$0")/.." || exit 2
TIER=${1:-quick}
for d in seeded/*/; do
  id=$(basename $d); [ -f $d/patch.diff ] || continue
  prop=$(echo $id | sed 's/^own-//' | cut -d- -f1)
  out=$(tools/try_mutant.sh $prop "$PWD/${d}patch.diff" --tier $TIER 2>&1); rc=$?
  if echo "$out" | grep -q "PATCH DOES NOT APPLY"; then echo "$id: patch does not apply at HEAD (conflicts with a later fix or hook)"; continue; fi
  case $rc in 1) r=caught;; 0) r=MISSED;; *) r="error rc=$rc";; esac
  echo "$id: $r $(echo "$out" | grep "^\[$prop\] tier" | cut -c1-120)"
done
